--------------------------- MODULE BytecodeKinds ---------------------------
(* Stored contract code: its kind, its original bytes and its hash (property C27, the part of it
   a TLA+ specification can decide).

   "For any code bytes, the bytecode value built from them reports exactly those bytes as its
    original code and length, its hash is keccak256 of those bytes (or the empty-code hash when
    empty), jump analysis never changes the original bytes, and an EIP-7702 delegation designator
    decodes to the address it was built from and re-encodes to the same 23 bytes."

   Written from the property text and from the texts that define the three kinds of code, not
   from the Rust code:

     - EIP-3541 (London): no new code whose first byte is 0xEF can be deployed; the prefix is
       reserved for formats announced by the byte(s) that follow;
     - EIP-3540: code that starts with the two bytes EF 00 is an EOF container (magic EF00,
       version byte 01, then a header of kind/size fields closed by a 00 terminator, then the
       type section (4 bytes per code section), the code sections, the data section);
     - EIP-7702: "the delegation indicator 0xef0100 || address": a code is a delegation exactly
       when it is the 3 bytes EF 01 00 followed by the 20 bytes of an address -- 23 bytes, no
       more, no fewer; EF01 is the magic, 00 the version;
     - Yellow Paper 9.4 / appendix H: bytes beyond the end of a code read as zero (STOP); this is
       what an implementation relies on when it extends ("pads") a code with zero bytes before
       executing it: the padded code behaves as the original one, but it is NOT the code of the
       account: the account's code, its size (EXTCODESIZE) and its hash (EXTCODEHASH, the
       codeHash field of the account, KEC(code)) are those of the original bytes.

   A *value* in this specification is an abstract datum [form, stored, n]: the form (one of the
   four representations the component exposes), the byte string it holds and the length n of
   the original code, which is a prefix of what it holds.  The constructors and accessors below
   are defined on that datum; TLC checks the property's clauses as lemmas on every enumerated
   byte string, and prints, for every byte string and every constructor, what the accessors of
   the real value must answer (CASE lines, one per constructor call; each line is a complete
   conformance edge {hist, op, post}).  The harness performs the call on revm and reports the
   accessors; the comparison is the generic one.

   The specification is a *case enumerator* (as JumpDest.tla): its states are byte strings.
   Exhaustive mode: <<>> and all strings over Alphabet of length <= MaxLen built by appending
   one byte at a time, plus the structured strings of Structured (initial states that are not
   extended).  Random mode (NextRandom): walks of up to MaxLen bytes over all 256 byte values,
   the first three positions biased towards the reserved prefixes, so that designators with
   random addresses, near-designators and ordinary code of 20..40 bytes occur.

   THE HASH.  TLA+ cannot compute Keccak-256 and this specification does not pretend to.  The
   hash clause is stated about ONE fixed function H from byte strings to digests:
        every value built from the code c -- by whatever constructor, raw or analysed --
        reports hash = H(c);   H(<<>>) = KeccakEmpty;   H is injective on the strings of a run;
        H agrees with the digests that the EIP texts themselves print (KnownDigests).
   and H is *given* to the judge (section "judge" at the end, run by TLC on the observations
   recorded by the harness) as the digest an independent call of the library's keccak256 on the
   op's byte string returns.  So the clause binds hash_slow to "keccak256 of the ORIGINAL bytes
   as computed by that library function", anchored to the real Keccak-256 only at the three
   published digests; it does not verify the keccak implementation. *)
EXTENDS Integers, Sequences, FiniteSets, TLC, Json, IOUtils

CONSTANTS Alphabet,    \* exhaustive mode: the byte values strings are built from
          MaxLen,      \* longest string built by appending
          Weighted     \* random mode: per position (the last entry serves all later positions) a
                       \* sequence of sets of bytes; one set is picked uniformly, then a byte of it

VARIABLE bs
vars == <<bs>>

\* ------------------------------------------------------------------------ byte strings
Byte     == 0..255
EF       == 239
Zeros(k) == [i \in 1..k |-> 0]
StartsWith(s, p) == Len(s) >= Len(p) /\ SubSeq(s, 1, Len(p)) = p
Min(a, b) == IF a < b THEN a ELSE b

\* ------------------------------------------------------------- the formats (from the EIPs)
EofMagic      == <<EF, 0>>            \* EIP-3540
DelegMagic    == <<EF, 1>>            \* EIP-7702
DelegVersion  == 0
DelegPrefix   == DelegMagic \o <<DelegVersion>>
AddrLen       == 20
DesignatorLen == Len(DelegPrefix) + AddrLen          \* 23

Designator(a)   == DelegPrefix \o a                   \* encode: address -> designator
IsDesignator(s) == Len(s) = DesignatorLen /\ StartsWith(s, DelegPrefix)
AddressOf(s)    == SubSeq(s, Len(DelegPrefix) + 1, DesignatorLen)   \* decode (0-based bytes 3..22)

ReservedMagic(s) == StartsWith(s, EofMagic) \/ StartsWith(s, DelegMagic)

\* The kind of a code according to the EIPs alone.  A code that starts with EF 01 but is not a
\* designator is, for EIP-7702, simply "not a delegation": ordinary code.
KindEip(s) == IF IsDesignator(s) THEN "eip7702"
              ELSE IF StartsWith(s, EofMagic) THEN "eof"
              ELSE "legacy"

\* EOF, only as far as this specification goes.  The smallest container EIP-3540 allows has one
\* code section of one byte, no sub-container and no data:
\*    EF00 01 | 01 0004 | 02 0001 0001 | 04 0000 | 00 || 00 80 0000 || c
\*    magic ver  types      code (1 section, 1 byte) data    term   type entry        code
\* (type entry: 0 inputs, 0x80 = non-returning, max stack 0).  Whether its code byte is a *valid*
\* EOF program is a matter of validation, not of decoding.
MinimalEof(c) == <<EF, 0, 1,  1, 0, 4,  2, 0, 1, 0, 1,  4, 0, 0,  0,   0, 128, 0, 0,   c>>
MinEofLen     == 20
MinEofHeader  == SubSeq(MinimalEof(0), 1, 19)
IsMinimalEof(s) == Len(s) = MinEofLen /\ StartsWith(s, MinEofHeader)
\* EF00 strings that certainly do not decode: too short to hold the smallest header and body, a
\* version other than 01, or bytes left over after everything the header of the minimal
\* container declares (its data size is 0).
EofCertainlyBad(s) ==
    \/ Len(s) < MinEofLen
    \/ s[3] # 1
    \/ StartsWith(s, MinEofHeader) /\ Len(s) > MinEofLen
\* The enumeration contains no other EF00 string (lemma EofUniverse): on it, "decodes" is
EofDecodes(s) == IsMinimalEof(s)

\* ------------------------------------------------------------------- the constructors
\* The CHECKING constructor (new_raw_checked; new_raw is the same and panics where this one
\* reports an error -- their documentation: "Returns an error on incorrect Bytecode format",
\* "Panics if bytecode is in incorrect format").  A byte string that carries a reserved magic
\* must be in the format the magic announces, otherwise it is refused; everything else is
\* legacy code.  For EF01 this is stricter than the EIP's own classification (KindEip says
\* "legacy" for a 22-byte EF0100.. string, the constructor refuses it); the two are compared in
\* the lemmas CheckedAgreesWithEip / RefusedOnlyReserved / MalformedDelegationRefused.  The
\* property speaks about values that were built, so a refusal is never a violation of it; an
\* ACCEPTED malformed designator would be (its original bytes could not be re-encoded).
Checked(s) == IF StartsWith(s, EofMagic) THEN (IF EofDecodes(s) THEN "eof" ELSE "error")
              ELSE IF StartsWith(s, DelegMagic) THEN (IF IsDesignator(s) THEN "eip7702" ELSE "error")
              ELSE "legacy"

FormOfKind(k) == CASE k = "legacy" -> "LegacyRaw" [] k = "eof" -> "Eof" [] k = "eip7702" -> "Eip7702"

\* A value: the representation, the bytes it holds, the length of the original code.
Val(form, s) == [form |-> form, stored |-> s, n |-> Len(s)]
BuildChecked(s) == Val(FormOfKind(Checked(s)), s)         \* defined when Checked(s) # "error"
\* new_legacy: "creates a new legacy Bytecode" -- no classification, whatever the bytes are.
BuildLegacy(s)  == Val("LegacyRaw", s)
\* the designator decoder on its own (Eip7702Bytecode::new_raw): builds exactly the designators
DecodesAsDelegation(s) == IsDesignator(s)
\* from an address (Eip7702Bytecode::new / Bytecode::new_eip7702)
BuildDelegation(a) == Val("Eip7702", Designator(a))
\* new_analyzed(bytes, original_len, table): the caller hands in the padded bytes and the length
BuildAnalysed(s, k) == [form |-> "LegacyAnalyzed", stored |-> s \o Zeros(k), n |-> Len(s)]

\* Jump analysis (to_analysed): raw legacy code is extended by k >= 1 zero bytes and remembers
\* its length; every other form is returned as it is.  k is the implementation's choice; nothing
\* below depends on it (lemma PadIrrelevant).
AnalyseK(v, k) == IF v.form = "LegacyRaw" THEN BuildAnalysed(v.stored, k) ELSE v
Analyse(v)     == AnalyseK(v, 1)

\* -------------------------------------------------------------------------- accessors
Original(v) == SubSeq(v.stored, 1, v.n)     \* original_bytes / original_byte_slice
LenOf(v)    == v.n                          \* len
IsEmpty(v)  == v.n = 0                      \* is_empty
Exec(v)     == v.stored                     \* bytes / bytes_slice: what the interpreter reads
HashArg(v)  == Original(v)                  \* hash_slow(v) = H(HashArg(v)): the ORIGINAL bytes

\* ------------------------------------------------- expected observations (harness vocabulary)
\* An executable byte string is reported relative to the original length: its first n bytes,
\* whether everything after them is zero, and whether there is anything after them.
ExecView(x, n) == [head      |-> SubSeq(x, 1, Min(n, Len(x))),
                   tail_zero |-> \A i \in (n + 1) .. Len(x) : x[i] = 0,
                   padded    |-> Len(x) > n]

\* Optional parts are sequences of length 0 or 1 (JSON has no option type).
DelegationView(v) == [address |-> AddressOf(v.stored), version |-> DelegVersion, raw |-> v.stored]
InnerView(v) == [original_len |-> v.n, original_bytes |-> Original(v), original_byte_slice |-> Original(v),
                 bytecode |-> ExecView(v.stored, v.n)]

View(v) == [variant             |-> v.form,
            is_eof              |-> v.form = "Eof",
            has_eof             |-> v.form = "Eof",
            is_eip7702          |-> v.form = "Eip7702",
            execution_ready     |-> v.form # "LegacyRaw",
            has_jump_table      |-> v.form = "LegacyAnalyzed",
            original_bytes      |-> Original(v),
            original_byte_slice |-> Original(v),
            len                 |-> LenOf(v),
            is_empty            |-> IsEmpty(v),
            bytes               |-> ExecView(Exec(v), v.n),
            bytes_slice         |-> ExecView(Exec(v), v.n),
            \* bytecode(): as bytes(), except for EOF where it is the first code section
            bytecode            |-> IF v.form = "Eof" THEN ExecView(<<v.stored[MinEofLen]>>, v.n)
                                                      ELSE ExecView(Exec(v), v.n),
            analyzed            |-> IF v.form = "LegacyAnalyzed" THEN <<InnerView(v)>> ELSE <<>>,
            delegation          |-> IF v.form = "Eip7702" THEN <<DelegationView(v)>> ELSE <<>>]

\* a built value is observed raw, after jump analysis, and after a second analysis
Built(v) == [outcome |-> "built", raw |-> View(v), analysed |-> View(Analyse(v)),
             reanalysed |-> View(Analyse(Analyse(v)))]
Refused  == [outcome |-> "error"]
Panicked == [outcome |-> "panic"]

Pads == <<1, 33>>      \* paddings the harness hands to new_analyzed

\* Every op carries `code`: the byte string that is the original code of whatever the op builds
\* (the judge's H is taken over it).
Edges(s) ==
    LET ok == Checked(s) # "error" IN
    <<  [op |-> [op |-> "new_raw_checked", code |-> s], post |-> IF ok THEN Built(BuildChecked(s)) ELSE Refused],
        [op |-> [op |-> "new_raw", code |-> s],         post |-> IF ok THEN Built(BuildChecked(s)) ELSE Panicked],
        [op |-> [op |-> "new_legacy", code |-> s],      post |-> Built(BuildLegacy(s))],
        [op |-> [op |-> "new_analyzed", code |-> s, pads |-> Pads],
             \* by hand, through both constructors of the analysed form
             post |-> [pad1  |-> [new_analyzed |-> View(BuildAnalysed(s, 1)),  inner_new |-> View(BuildAnalysed(s, 1))],
                       pad33 |-> [new_analyzed |-> View(BuildAnalysed(s, 33)), inner_new |-> View(BuildAnalysed(s, 33))]]],
        [op |-> [op |-> "decode7702", code |-> s],
             post |-> IF DecodesAsDelegation(s) THEN Built(Val("Eip7702", s)) ELSE Refused] >>
    \o (IF Len(s) = AddrLen          \* every 20-byte string is also an address
        THEN << [op |-> [op |-> "delegate", address |-> s, code |-> Designator(s)],
                 post |-> [direct   |-> DelegationView(BuildDelegation(s)),
                           value    |-> Built(BuildDelegation(s)),
                           \* the designator it produced, given back to the checking constructor
                           reparsed |-> Built(BuildChecked(Designator(s)))]] >>
        ELSE <<>>)
    \o (IF s = <<>>                   \* the default value: analysed empty code
        THEN << [op |-> [op |-> "default", code |-> s],
                 post |-> [new |-> View(Analyse(BuildLegacy(s))), default |-> View(Analyse(BuildLegacy(s)))]] >>
        ELSE <<>>)

EmitAll(s) == LET E == Edges(s)
              IN  \A i \in 1..Len(E) : PrintT("CASE " \o ToJson([hist |-> <<>>, op |-> E[i].op, post |-> E[i].post]))

\* --------------------------------------------------------------------------- enumeration
\* Address palette: zero, all ones, 0x00..01, one that itself begins like a designator / contains
\* the reserved bytes, a precompile-like low address with a leading EF.
Addrs == { Zeros(20), [i \in 1..20 |-> 255], [i \in 1..20 |-> IF i = 20 THEN 1 ELSE 0],
           <<EF, 1, 0, 91, 96, 127, EF, 0, 1, 2, 254, 255, 0, 0, 91, 91, 127, 96, EF, 1>>,
           [i \in 1..20 |-> IF i = 1 THEN EF ELSE IF i = 20 THEN 9 ELSE 0] }

Structured ==
    LET D == {Designator(a) : a \in Addrs} IN
    D                                                             \* designators
    \cup Addrs                                                    \* the addresses themselves (20-byte legacy code)
    \cup {<<EF, 1, v>> \o a : v \in {1, 2, 255}, a \in Addrs}     \* wrong version
    \cup {SubSeq(d, 1, 22) : d \in D}                             \* 19 address bytes
    \cup {d \o <<x>> : d \in D, x \in {0, 1}}                     \* 21 address bytes
    \cup {SubSeq(d, 1, 21) : d \in D}
    \cup {<<EF, 2, 0>> \o a : a \in Addrs}                        \* 23 bytes, another second byte: legacy
    \cup {<<238, 1, 0>> \o a : a \in Addrs}                       \* 23 bytes, first byte not EF: legacy
    \cup {<<0>> \o d : d \in D}                                   \* a designator that is not at offset 0
    \cup {<<EF, 0>> \o a : a \in Addrs}                           \* EF00 prefixes: 22 bytes, version byte varies
    \cup {SubSeq(MinimalEof(0), 1, k) : k \in 7..19}              \* truncated containers
    \cup {MinimalEof(c) : c \in {0, 91, 254}}                     \* the smallest container
    \cup {MinimalEof(0) \o <<x>> : x \in {0, 1}}                  \* ... with a stray byte
    \cup {[MinimalEof(0) EXCEPT ![3] = v] : v \in {0, 2}}         \* ... with another version
    \cup {[i \in 1..k |-> 91] : k \in {23, 32, 33}}               \* legacy code ending in JUMPDEST
    \cup {[i \in 1..k |-> 127] : k \in {23, 33, 34}}              \* legacy code ending in a cut-off PUSH32
    \cup {[i \in 1..k |-> 0] : k \in {23, 33, 34, 66}}            \* legacy code that is all zero: padding looks like code
    \* legacy code with a zero tail as long as / longer than the padding an analysis appends (33 bytes): a tail of
    \* the original code must never be mistaken for padding
    \cup {[i \in 1..(p + k) |-> IF i <= p THEN 91 ELSE 0] : p \in {1, 2, 7}, k \in {31, 32, 33, 34, 40, 66}}

\* exhaustive mode: no string is enumerated twice (the structured strings are longer than MaxLen)
NoDuplicates == \A s \in Structured : Len(s) > MaxLen

Init == bs \in ({<<>>} \cup Structured) /\ EmitAll(bs)

Next == /\ Len(bs) < MaxLen
        /\ \E b \in Alphabet : bs' = Append(bs, b) /\ EmitAll(bs')

\* random mode
InitRandom == bs = <<>> /\ EmitAll(bs)
NextRandom ==
    /\ Len(bs) < MaxLen
    /\ LET W   == Weighted[Min(Len(bs) + 1, Len(Weighted))]
           cls == W[RandomElement(1..Len(W))]
           b   == RandomElement(cls)
       IN  /\ ~(StartsWith(Append(bs, b), EofMagic) /\ Len(bs) + 1 >= MinEofLen)   \* stay inside EofUniverse
           /\ bs' = Append(bs, b) /\ EmitAll(bs')

Spec == Init /\ [][Next]_vars

\* ============================ lemmas checked by TLC on every string ==========================
TypeOK == bs \in Seq(Byte)

\* Exactly the three kinds; the kind is decided by at most the first three bytes and the length.
KindTotal ==
    /\ KindEip(bs) \in {"legacy", "eof", "eip7702"}
    /\ KindEip(bs) = "eip7702" <=> (Len(bs) = 23 /\ bs[1] = EF /\ bs[2] = 1 /\ bs[3] = 0)
    /\ KindEip(bs) = "eof" <=> (Len(bs) >= 2 /\ bs[1] = EF /\ bs[2] = 0)
    /\ (bs = <<>> \/ bs[1] # EF) => KindEip(bs) = "legacy"

\* Every EF00 string of the enumeration is either the smallest container or certainly malformed,
\* so EofDecodes is the whole truth here (and nowhere else).
EofUniverse == StartsWith(bs, EofMagic) => (IsMinimalEof(bs) /\ ~EofCertainlyBad(bs)) \/ (EofCertainlyBad(bs) /\ ~IsMinimalEof(bs))

\* The checking constructor versus the EIPs: what it builds has the EIP's kind; it refuses only
\* strings with a reserved magic; and a string with the delegation magic that is not a designator
\* (wrong length, wrong version) is refused although the EIP would call it ordinary code.
CheckedAgreesWithEip     == Checked(bs) # "error" => Checked(bs) = KindEip(bs)
RefusedOnlyReserved      == Checked(bs) = "error" => ReservedMagic(bs)
MalformedDelegationRefused ==
    (StartsWith(bs, DelegMagic) /\ ~IsDesignator(bs)) => (Checked(bs) = "error" /\ KindEip(bs) = "legacy")
NeverAcceptsMalformedDesignator ==
    Checked(bs) = "eip7702" => (Len(bs) = DesignatorLen /\ bs[3] = DelegVersion)
DecoderAgreesWithChecked == DecodesAsDelegation(bs) <=> Checked(bs) = "eip7702"

\* All values that can be built from bs (raw forms).
ValuesOf(s) == {BuildLegacy(s)}
               \cup (IF Checked(s) # "error" THEN {BuildChecked(s)} ELSE {})
               \cup (IF DecodesAsDelegation(s) THEN {Val("Eip7702", s)} ELSE {})
PadsChecked == {1, 2, 32, 33}

\* C27, first clause: original bytes, length, emptiness -- for every constructor.
OriginalIsInput ==
    \A v \in ValuesOf(bs) : Original(v) = bs /\ LenOf(v) = Len(bs) /\ (IsEmpty(v) <=> bs = <<>>)
\* C27, third clause: jump analysis never changes them (and neither does a second analysis, nor
\* building the analysed form by hand), while the executable bytes are the code followed by zeros.
AnalysisKeepsOriginal ==
    \A v \in ValuesOf(bs) : \A k \in PadsChecked :
        LET a == AnalyseK(v, k) IN
        /\ Original(a) = bs /\ LenOf(a) = Len(bs) /\ (IsEmpty(a) <=> bs = <<>>)
        /\ HashArg(a) = HashArg(v)
        /\ AnalyseK(a, 33) = a
        /\ v.form = "LegacyRaw" => /\ a = BuildAnalysed(bs, k)
                                   /\ Exec(a) = bs \o Zeros(k)
                                   /\ Len(Exec(a)) > Len(bs)
        /\ v.form # "LegacyRaw" => a = v
\* the observations do not depend on how much padding there is
PadIrrelevant ==
    \A v \in ValuesOf(bs) : \A k \in PadsChecked : View(AnalyseK(v, k)) = View(Analyse(v))
\* the hash argument is the input for every value, raw or analysed: one function H serves all
HashArgIsInput ==
    \A v \in ValuesOf(bs) : HashArg(v) = bs /\ HashArg(Analyse(v)) = bs

\* C27, fourth clause: designator <-> address.
DesignatorRoundTrip ==
    /\ IsDesignator(bs) => /\ Designator(AddressOf(bs)) = bs
                           /\ Len(AddressOf(bs)) = AddrLen
                           /\ Original(BuildChecked(bs)) = bs
                           /\ DelegationView(BuildChecked(bs)).address = SubSeq(bs, 4, 23)
    /\ Len(bs) = AddrLen => /\ IsDesignator(Designator(bs))
                            /\ Len(Designator(bs)) = 23
                            /\ AddressOf(Designator(bs)) = bs
                            /\ Checked(Designator(bs)) = "eip7702"
                            /\ BuildChecked(Designator(bs)) = BuildDelegation(bs)
AddressPalette ==
    \A a \in Addrs : Len(a) = AddrLen /\ AddressOf(Designator(a)) = a /\ Original(BuildDelegation(a)) = <<EF, 1, 0>> \o a

\* Action properties: appending a byte to code without a reserved magic leaves it legacy; a
\* designator stops being one; a string becomes a designator only by receiving its 23rd byte.
AppendKeepsLegacy ==
    [][(Len(bs) >= 2 /\ ~ReservedMagic(bs)) => Checked(bs') = "legacy"]_vars
OnlyExactLengthDelegates ==
    [][/\ IsDesignator(bs) => Checked(bs') = "error"
       /\ Checked(bs') = "eip7702" => (Len(bs) = 22 /\ StartsWith(bs, DelegPrefix) /\ Checked(bs) = "error")]_vars

\* ======================================= judge (hash) ========================================
(* Run by TLC with INIT JudgeInit / NEXT JudgeNext on the ndjson file IOEnv.TRACE written by the
   harness (mode `edges rec=<file>`: written in the same pass as the replay; or mode `record`):
   one record per CASE line,
        [i, op, code, keccak, built, hashes]
   code   = the op's `code` field (the original code of whatever the op builds),
   keccak = keccak256(code) computed by the harness with the library function, from the op's
            bytes, independently of any value built,
   built  = number of bytecode values the op built and observed (raw, analysed, re-analysed ...),
   hashes = the distinct hash_slow() answers of those values.
   A rejected record is printed as a REJECT line; the run always terminates normally. *)
Rec == ndJsonDeserialize(IOEnv.TRACE)

KeccakEmpty == "0xc5d2460186f7233c927e7db2dcc703c0e500b653ca82273b7bfad8045d85a470"   \* Yellow Paper: KEC(())
\* digests printed in the EIP texts: EIP-7702 (EXTCODEHASH of a delegated account, keccak256(0xef01))
\* and EIP-3540/7692 (EXTCODEHASH of an EOF account, keccak256(0xef00))
KnownDigests == { <<<<>>, KeccakEmpty>>,
                  <<DelegMagic, "0xeadcdba66a79ab5dce91622d1d75c8cff5cff0b96944c3bf1072cd08ce018329">>,
                  <<EofMagic, "0x9dbf3648db8210552e9c4f75c6a1c3057c0ca432043bd648be15fe7be05646f5">> }

\* per record: all values built from `code` answer the one digest H(code) := keccak
RecReasons(r) ==
    (IF r.built > 0 /\ r.hashes # <<r.keccak>> THEN {"hash_slow is not H(original bytes)"} ELSE {})
    \cup (IF r.built > 0 /\ r.code = <<>> /\ r.hashes # <<KeccakEmpty>> THEN {"hash of empty code is not KeccakEmpty"} ELSE {})
    \cup (IF \E k \in KnownDigests : k[1] = r.code /\ k[2] # r.keccak THEN {"H disagrees with a published digest"} ELSE {})

\* whole run: H is a function (the same code never has two digests, whichever constructor and
\* form) and injective on the codes of the run (two codes never share a digest)
RunReasons ==
    LET P == {<<Rec[i].code, Rec[i].hashes>> : i \in {j \in DOMAIN Rec : Rec[j].built > 0}}
        Q == {<<Rec[i].code, Rec[i].keccak>> : i \in DOMAIN Rec}
        codes(S) == {p[1] : p \in S}
        digs(S)  == {p[2] : p \in S}
    IN  (IF Cardinality(P) # Cardinality(codes(P)) THEN {"hash_slow is not a function of the original bytes"} ELSE {})
        \cup (IF Cardinality(P) # Cardinality(digs(P)) THEN {"hash_slow is not injective on this run"} ELSE {})
        \cup (IF Cardinality(Q) # Cardinality(codes(Q)) \/ Cardinality(Q) # Cardinality(digs(Q))
              THEN {"H is not an injective function on this run"} ELSE {})

SetSeq(S) == LET RECURSIVE F(_)
                 F(T) == IF T = {} THEN <<>> ELSE LET x == CHOOSE x \in T : TRUE IN <<x>> \o F(T \ {x})
             IN F(S)

JudgeAll ==
    /\ \A i \in DOMAIN Rec :
          LET rs == RecReasons(Rec[i])
          IN  rs = {} \/ PrintT("REJECT " \o ToJson([i |-> Rec[i].i, op |-> Rec[i].op, code |-> Rec[i].code,
                                                     reasons |-> SetSeq(rs)]))
    /\ LET rs == RunReasons
       IN  rs = {} \/ PrintT("REJECT " \o ToJson([i |-> 0, op |-> "run", code |-> <<>>, reasons |-> SetSeq(rs)]))
    /\ PrintT("INFO " \o ToJson([judged |-> Len(Rec),
                                 built |-> Cardinality({j \in DOMAIN Rec : Rec[j].built > 0}),
                                 \* how many of the published digests were exercised on a built value
                                 anchors |-> Cardinality({k \in KnownDigests : \E j \in DOMAIN Rec :
                                                             Rec[j].code = k[1] /\ Rec[j].built > 0})]))

JudgeInit == bs = <<>> /\ JudgeAll
JudgeNext == FALSE /\ UNCHANGED bs
=============================================================================
