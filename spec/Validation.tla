------------------------------ MODULE Validation ------------------------------
(* Transaction validity (property C02):

     "A transaction is rejected with a validation error if and only if it breaks a validity rule
      of its hardfork.  A rejected transaction changes nothing: the database and every later
      transaction behave as if it had never been submitted."

   Part 1 states the validity predicate  Valid(tx, sender, block, cfg, fork)  as the conjunction
   of Ethereum's rules, fork by fork, written from the Yellow Paper and the EIPs (2, 155, 2028,
   2681, 2930, 1559, 3607, 3860, 4399, 4844, 7623, 7691, 7702) -- not from env.rs.
   Part 2 enumerates transactions around a valid baseline of every transaction type (CASE lines:
   concrete field values + the verdict); the harness submits each to a fresh Evm through
   preverify_transaction() and transact() and the verdicts must agree.
   Part 3 is the state machine of "rejection has no effect": one Evm, one database, a history of
   accepted / rejected transactions, validation-only calls and external deposits; the world
   (sender nonce and balance, recipient and beneficiary balance) is changed by accepted,
   committed transactions only (EDGE lines, replayed step by step).

   The transaction record is the one the implementation is given (`TxEnv`): it is UNTYPED, the
   transaction type is implied by which optional fields are present:
       access list non-empty            -> EIP-2930 (or later) transaction
       prio # None                      -> EIP-1559 style fees (types 2, 3, 4)
       blobs # <<>> or blobcap # None   -> EIP-4844 blob transaction (type 3)
       auth # None                      -> EIP-7702 set-code transaction (type 4)
   A combination of fields that no transaction type of the fork can carry is not a transaction
   of that fork, hence invalid (rules *Fork, BlobFields, OneType).  One such combination is
   OUTSIDE the judged domain: priority-fee fields before London with no other typed field.  The
   record has no envelope, the implementation documents no policing of that field, and the
   property's domain is "type-consistent combinations plus the cross-fork uses the
   implementation polices" -- so EIP-1559 baselines are generated from London on only
   (InDomain), and Valid does not contain a rule for it.

   Numbers.  TLC integers are 32 bit.  Amounts of wei are model integers 0..Huge where Huge
   stands for 2^256-1 and values >= Huge/2 stand for values equally close to 2^256-1; everything
   the model computes from small inputs stays below Huge/2 (invariant EmbeddingSound), and a sum
   or product that leaves 0..Huge is TooBig = "does not fit in 256 bits".  Nonces: NonceMax
   stands for 2^64-1 in the same way.  None (-1) marks an absent optional field. *)
EXTENDS Integers, Sequences, FiniteSets, TLC, Json

CONSTANTS Forks,     \* part 2/3: forks to enumerate (subset of the names in ForkSeq)
          Kinds,     \* part 2: baseline transaction types to enumerate
          Tos,       \* part 2: subset of {"call", "create"}
          MaxDev,    \* part 2: at most this many simultaneous deviations from the baseline
          DevDims,   \* part 2: the dimensions that may deviate (all of DimSeq, or a subset whose full product is wanted)
          MaxHist    \* part 3: bound on the history length

VARIABLES sel,       \* part 2: the selected case  [fork, kind, to, devs]
          fork,      \* part 3: fork of the opened Evm ("" before `open`)
          world,     \* part 3: [nonce, sbal, rbal, cbal, burnt, minted]
          last,      \* part 3: verdict of the last submission (TRUE = accepted)
          ghost,     \* part 3: the most recent submission that had no effect (see ViewHist)
          hist       \* part 3: operations so far (hidden by View)
vars == <<sel, fork, world, last, ghost, hist>>

None == -1
Huge == 536870912          \* 2^29, the model value of 2^256-1
TooBig == Huge + 1         \* any result that does not fit in 256 bits
NonceMax == 1000000        \* the model value of 2^64-1
Min(a, b) == IF a < b THEN a ELSE b
Max(a, b) == IF a > b THEN a ELSE b

\* 256-bit arithmetic with an explicit "does not fit"
Near(x) == x >= Huge \div 2            \* x stands for a value within Huge/2 of 2^256-1
Add(a, b) == IF a > Huge \/ b > Huge THEN TooBig
             ELSE IF a + b > Huge THEN TooBig ELSE a + b
Mul(a, b) == IF a = 0 \/ b = 0 THEN 0
             ELSE IF a = 1 THEN b ELSE IF b = 1 THEN a
             ELSE IF a > Huge \/ b > Huge \/ Near(a) \/ Near(b) THEN TooBig
             ELSE a * b

------------------------------------------------------------------------------
(* Part 1 -- the rules *)

ForkSeq == <<"FRONTIER", "FRONTIER_THAWING", "HOMESTEAD", "DAO_FORK", "TANGERINE", "SPURIOUS_DRAGON",
             "BYZANTIUM", "CONSTANTINOPLE", "PETERSBURG", "ISTANBUL", "MUIR_GLACIER", "BERLIN",
             "LONDON", "ARROW_GLACIER", "GRAY_GLACIER", "MERGE", "SHANGHAI", "CANCUN", "PRAGUE">>
Rank(f) == CHOOSE i \in 1..Len(ForkSeq) : ForkSeq[i] = f
From(f, g) == Rank(f) >= Rank(g)        \* the rules of fork g are active in fork f

GasPerBlob == 131072                    \* EIP-4844
MaxInitcode == 49152                    \* EIP-3860: 2 * 24576
MaxBlobs(f) == IF From(f, "PRAGUE") THEN 9 ELSE 6     \* EIP-4844 / EIP-7691 (mainnet schedule)

IsCreate(tx) == tx.to = "create"
DataLen(tx) == tx.zeros + tx.nonzeros
HasAccessList(tx) == tx.al_addrs > 0
HasPrio(tx) == tx.prio # None
HasBlob(tx) == tx.blobs # <<>> \/ tx.blobcap # None
HasAuth(tx) == tx.auth # None

\* Intrinsic gas (Yellow Paper g_0 with EIP-2, 2028, 2930, 3860, 7702) and the EIP-7623 floor.
CalldataGas(tx, f) == 4 * tx.zeros + (IF From(f, "ISTANBUL") THEN 16 ELSE 68) * tx.nonzeros
Tokens(tx) == tx.zeros + 4 * tx.nonzeros
Words(n) == (n + 31) \div 32
Intrinsic(tx, f) ==
    21000 + CalldataGas(tx, f)
    + (IF IsCreate(tx) /\ From(f, "HOMESTEAD") THEN 32000 ELSE 0)
    + (IF From(f, "BERLIN") THEN 2400 * tx.al_addrs + 1900 * tx.al_keys ELSE 0)
    + (IF IsCreate(tx) /\ From(f, "SHANGHAI") THEN 2 * Words(DataLen(tx)) ELSE 0)
    + (IF From(f, "PRAGUE") /\ HasAuth(tx) THEN 25000 * tx.auth ELSE 0)
FloorGas(tx, f) == IF From(f, "PRAGUE") THEN 21000 + 10 * Tokens(tx) ELSE 0

\* The most the sender can be charged: gas_limit * max_fee_per_gas + value (+ the blob fee cap).
BlobGas(tx) == GasPerBlob * Len(tx.blobs)
MaxCost(tx) == Add(Add(Mul(tx.gas, tx.fee), tx.value),
                   IF tx.blobcap # None THEN Mul(tx.blobcap, BlobGas(tx)) ELSE 0)

\* --- block header (EIP-4399: prevrandao from the Merge; EIP-4844: excess blob gas from Cancun)
RHeader(blk, f) == /\ From(f, "MERGE") => blk.prevrandao
                   /\ From(f, "CANCUN") => blk.blob_price # None
\* --- the transaction type exists in the fork
RAccessListFork(tx, f) == HasAccessList(tx) => From(f, "BERLIN")
\* (priority-fee fields before London: outside the domain, see the header and InDomain)
RBlobFork(tx, f) == HasBlob(tx) => From(f, "CANCUN")
RBlobFields(tx) == (tx.blobs # <<>>) => tx.blobcap # None       \* hashes only in a blob transaction
RAuthFork(tx, f) == HasAuth(tx) => From(f, "PRAGUE")
ROneType(tx) == ~(HasBlob(tx) /\ HasAuth(tx))
\* --- EIP-155
RChainId(tx, cfg) == tx.chain = None \/ tx.chain = cfg.chain_id
\* --- gas
RBlockGas(tx, blk) == tx.gas <= blk.gas_limit
RIntrinsic(tx, f) == tx.gas >= Intrinsic(tx, f)
RFloor(tx, f) == tx.gas >= FloorGas(tx, f)
\* --- EIP-1559
RFeeCap(tx, blk, f) == From(f, "LONDON") => tx.fee >= blk.base_fee
RPrioFee(tx, f) == (From(f, "LONDON") /\ HasPrio(tx)) => tx.prio <= tx.fee
\* --- EIP-3860
RInitcode(tx, f) == (From(f, "SHANGHAI") /\ IsCreate(tx)) => DataLen(tx) <= MaxInitcode
\* --- EIP-4844
RBlobCount(tx, f) == tx.blobcap # None => (Len(tx.blobs) >= 1 /\ Len(tx.blobs) <= MaxBlobs(f))
RBlobVersion(tx) == \A i \in 1..Len(tx.blobs) : tx.blobs[i] = 1
RBlobFeeCap(tx, blk) == (tx.blobcap # None /\ blk.blob_price # None) => tx.blobcap >= blk.blob_price
RBlobCreate(tx) == HasBlob(tx) => ~IsCreate(tx)
\* --- EIP-7702
RAuthEmpty(tx) == HasAuth(tx) => tx.auth >= 1
RAuthCreate(tx) == HasAuth(tx) => ~IsCreate(tx)
\* --- sender: EIP-3607 (no code), amended by EIP-7702 (a delegated EOA may send)
RSenderCode(snd, f) == snd.code = "none" \/ (snd.code = "delegation" /\ From(f, "PRAGUE"))
RNonce(tx, snd) == tx.nonce = snd.nonce
RNonceMax(tx) == tx.nonce < NonceMax                              \* EIP-2681
RFunds(tx, snd) == MaxCost(tx) <= Huge /\ MaxCost(tx) <= snd.balance

Valid(tx, snd, blk, cfg, f) ==
    /\ RHeader(blk, f)
    /\ RAccessListFork(tx, f) /\ RBlobFork(tx, f) /\ RBlobFields(tx)
    /\ RAuthFork(tx, f) /\ ROneType(tx)
    /\ RChainId(tx, cfg)
    /\ RBlockGas(tx, blk) /\ RIntrinsic(tx, f) /\ RFloor(tx, f)
    /\ RFeeCap(tx, blk, f) /\ RPrioFee(tx, f)
    /\ RInitcode(tx, f)
    /\ RBlobCount(tx, f) /\ RBlobVersion(tx) /\ RBlobFeeCap(tx, blk) /\ RBlobCreate(tx)
    /\ RAuthEmpty(tx) /\ RAuthCreate(tx)
    /\ RSenderCode(snd, f) /\ RNonce(tx, snd) /\ RNonceMax(tx) /\ RFunds(tx, snd)

\* The same rules by name -- for diagnostics only (which rules a case breaks); the comparison
\* with the implementation uses the verdict, never the name.
RuleNames == <<"Header", "AccessListFork", "BlobFork", "BlobFields", "AuthFork", "OneType",
               "ChainId", "BlockGas", "Intrinsic", "Floor", "FeeCap", "PrioFee", "Initcode", "BlobCount",
               "BlobVersion", "BlobFeeCap", "BlobCreate", "AuthEmpty", "AuthCreate", "SenderCode", "Nonce",
               "NonceMax", "Funds">>
Holds(r, tx, snd, blk, cfg, f) ==
    CASE r = "Header" -> RHeader(blk, f)
      [] r = "AccessListFork" -> RAccessListFork(tx, f)
      [] r = "BlobFork" -> RBlobFork(tx, f)
      [] r = "BlobFields" -> RBlobFields(tx)
      [] r = "AuthFork" -> RAuthFork(tx, f)
      [] r = "OneType" -> ROneType(tx)
      [] r = "ChainId" -> RChainId(tx, cfg)
      [] r = "BlockGas" -> RBlockGas(tx, blk)
      [] r = "Intrinsic" -> RIntrinsic(tx, f)
      [] r = "Floor" -> RFloor(tx, f)
      [] r = "FeeCap" -> RFeeCap(tx, blk, f)
      [] r = "PrioFee" -> RPrioFee(tx, f)
      [] r = "Initcode" -> RInitcode(tx, f)
      [] r = "BlobCount" -> RBlobCount(tx, f)
      [] r = "BlobVersion" -> RBlobVersion(tx)
      [] r = "BlobFeeCap" -> RBlobFeeCap(tx, blk)
      [] r = "BlobCreate" -> RBlobCreate(tx)
      [] r = "AuthEmpty" -> RAuthEmpty(tx)
      [] r = "AuthCreate" -> RAuthCreate(tx)
      [] r = "SenderCode" -> RSenderCode(snd, f)
      [] r = "Nonce" -> RNonce(tx, snd)
      [] r = "NonceMax" -> RNonceMax(tx)
      [] r = "Funds" -> RFunds(tx, snd)
Violated(tx, snd, blk, cfg, f) == SelectSeq(RuleNames, LAMBDA r : ~Holds(r, tx, snd, blk, cfg, f))

\* What an accepted transaction is charged per unit of gas (EIP-1559), used by the theorems of
\* part 2 and by the world update of part 3.
EffPrice(tx, blk, f) == IF HasPrio(tx) /\ From(f, "LONDON") THEN Min(tx.fee, blk.base_fee + tx.prio) ELSE tx.fee

------------------------------------------------------------------------------
(* Part 2 -- cases around a baseline.

   A case is a baseline (fork, transaction type, call/create) plus deviations: for some of the
   dimensions below a class other than the default one.  Concrete values are computed after all
   classes are known, so "gas limit = intrinsic gas - 1" or "balance = maximal cost - 1" mean
   what they say whatever else deviates.  Dimensions are ordered so that a class depends only on
   earlier dimensions; deviations are chosen in that order, hence every case is generated once. *)

DimSeq == <<"header", "basefee", "chain", "data", "al", "auth", "blobs", "blobver", "blobcap", "gas",
            "fee", "prio", "value", "code", "nonce", "balance">>
DimIdx(d) == CHOOSE i \in 1..Len(DimSeq) : DimSeq[i] = d
DynKinds == {"eip1559", "eip4844", "eip7702"}        \* types with EIP-1559 fee fields
BlockGasLimit == 1000000
BlobPrice == 3
CaseCfg == [chain_id |-> 1]

Default(kind, d) ==
    CASE d = "header" -> "ok"
      [] d = "basefee" -> "ten"
      [] d = "chain" -> IF kind = "legacy" THEN "absent" ELSE "equal"   \* typed transactions carry a chain id
      [] d = "data" -> "empty"
      [] d = "al" -> IF kind = "eip2930" THEN "present" ELSE "absent"
      [] d = "auth" -> IF kind = "eip7702" THEN "one" ELSE "none"
      [] d = "blobs" -> IF kind = "eip4844" THEN "one" ELSE "none"
      [] d = "blobver" -> "ok"
      [] d = "blobcap" -> "price"
      [] d = "gas" -> "block"
      [] d = "fee" -> "base+1"
      [] d = "prio" -> IF kind \in DynKinds THEN "one" ELSE "none"
      [] d = "value" -> "small"
      [] d = "code" -> "none"
      [] d = "nonce" -> "eq"
      [] d = "balance" -> "exact"

ClassOf(s, d) ==
    LET I == {i \in 1..Len(s.devs) : s.devs[i][1] = d} IN
    IF I = {} THEN Default(s.kind, d) ELSE s.devs[CHOOSE i \in I : TRUE][2]

\* The concrete case: transaction, sender account, block, plus derived numbers.
Concrete(s) ==
    LET f == s.fork
        C(d) == ClassOf(s, d)
        base == IF C("basefee") = "ten" THEN 10 ELSE 0
        blk == [gas_limit |-> BlockGasLimit, base_fee |-> base,
                blob_price |-> IF From(f, "CANCUN") /\ C("header") # "no_excess" THEN BlobPrice ELSE None,
                prevrandao |-> From(f, "MERGE") /\ C("header") # "no_prevrandao"]
        chain == CASE C("chain") = "absent" -> None [] C("chain") = "equal" -> 1 [] C("chain") = "different" -> 2
        data == CASE C("data") = "empty" -> <<0, 0>>
                  [] C("data") = "zeros" -> <<3, 0>>
                  [] C("data") = "nonzeros" -> <<0, 3>>
                  [] C("data") = "mixed" -> <<2, 3>>
                  [] C("data") = "limit" -> <<MaxInitcode - 1, 1>>
                  [] C("data") = "limit+1" -> <<MaxInitcode, 1>>
        al == IF C("al") = "present" THEN <<1, 2>> ELSE <<0, 0>>
        auth == CASE C("auth") = "none" -> None [] C("auth") = "empty" -> 0 [] C("auth") = "one" -> 1 [] C("auth") = "two" -> 2
        nblobs == CASE C("blobs") \in {"none", "zero"} -> 0
                    [] C("blobs") \in {"one", "nocap"} -> 1
                    [] C("blobs") = "max" -> MaxBlobs(f)
                    [] C("blobs") = "max+1" -> MaxBlobs(f) + 1
        blobs == [i \in 1..nblobs |-> IF C("blobver") = "bad" /\ i = nblobs THEN 2 ELSE 1]
        hascap == C("blobs") \in {"zero", "one", "max", "max+1"}
        cap == IF ~hascap THEN None
               ELSE CASE C("blobcap") = "price" -> BlobPrice
                      [] C("blobcap") = "price-1" -> BlobPrice - 1
                      [] C("blobcap") = "price+1" -> BlobPrice + 1
                      [] C("blobcap") = "huge" -> Huge
        shape == [to |-> s.to, zeros |-> data[1], nonzeros |-> data[2], al_addrs |-> al[1], al_keys |-> al[2], auth |-> auth]
        intr == Intrinsic(shape, f)
        floor == FloorGas(shape, f)
        gas == CASE C("gas") = "block" -> BlockGasLimit
                 [] C("gas") = "block+1" -> BlockGasLimit + 1
                 [] C("gas") = "intr" -> intr
                 [] C("gas") = "intr-1" -> intr - 1
                 [] C("gas") = "floor" -> floor
                 [] C("gas") = "floor-1" -> floor - 1
        fee == CASE C("fee") = "base+1" -> base + 1
                 [] C("fee") = "base" -> base
                 [] C("fee") = "base-1" -> base - 1
                 [] C("fee") = "zero" -> 0
                 [] C("fee") = "huge" -> Huge
        prio == CASE C("prio") = "none" -> None
                  [] C("prio") = "one" -> 1
                  [] C("prio") = "eqfee" -> fee
                  [] C("prio") = "fee+1" -> fee + 1
        value == CASE C("value") = "small" -> 1000 [] C("value") = "zero" -> 0 [] C("value") = "huge" -> Huge
        nonces == CASE C("nonce") = "eq" -> <<5, 5>>          \* <<account nonce, transaction nonce>>
                    [] C("nonce") = "low" -> <<5, 4>>
                    [] C("nonce") = "high" -> <<5, 6>>
                    [] C("nonce") = "last" -> <<NonceMax - 1, NonceMax - 1>>
                    [] C("nonce") = "max" -> <<NonceMax, NonceMax>>
        tx == [to |-> s.to, gas |-> gas, fee |-> fee, prio |-> prio, value |-> value,
               zeros |-> data[1], nonzeros |-> data[2], nonce |-> nonces[2], chain |-> chain,
               al_addrs |-> al[1], al_keys |-> al[2], blobs |-> blobs, blobcap |-> cap, auth |-> auth]
        cost == MaxCost(tx)
        balance == IF cost > Huge THEN Huge        \* even an account holding 2^256-1 cannot pay
                   ELSE CASE C("balance") = "exact" -> cost
                          [] C("balance") = "short" -> cost - 1
                          [] C("balance") = "spare" -> cost + 1
        snd == [nonce |-> nonces[1], balance |-> balance, code |-> C("code")]
    IN [tx |-> tx, sender |-> snd, block |-> blk, cost |-> cost, hascap |-> hascap, nblobs |-> nblobs]

\* Classes other than the default that dimension d offers, given the case so far (c = Concrete(s)).
Alternatives(s, c, d) ==
    LET f == s.fork  k == s.kind IN
    CASE d = "header" -> (IF From(f, "MERGE") THEN {"no_prevrandao"} ELSE {}) \cup (IF From(f, "CANCUN") THEN {"no_excess"} ELSE {})
      [] d = "basefee" -> {"zero"}
      \* a chain id on a legacy transaction is EIP-155 (Spurious Dragon); before that fork the
      \* meaning of a matching chain id is a matter of signature encoding, not generated
      [] d = "chain" -> IF k = "legacy" THEN {"different"} \cup (IF From(f, "SPURIOUS_DRAGON") THEN {"equal"} ELSE {})
                        ELSE {"different"}
      [] d = "data" -> {"zeros", "nonzeros", "mixed", "limit", "limit+1"}
      [] d = "al" -> IF k \in DynKinds THEN {"present"} ELSE {}
      [] d = "auth" -> IF k = "eip7702" THEN {"empty", "two"} ELSE {}
      [] d = "blobs" -> IF k = "eip4844" THEN {"zero", "max", "max+1"}
                        ELSE IF k = "eip7702" THEN {"one", "nocap"} ELSE {"nocap"}
      [] d = "blobver" -> IF c.nblobs >= 1 THEN {"bad"} ELSE {}
      [] d = "blobcap" -> IF c.hascap THEN {"price-1", "price+1", "huge"} ELSE {}
      [] d = "gas" -> {"intr-1", "intr", "block+1"} \cup (IF From(f, "PRAGUE") THEN {"floor-1", "floor"} ELSE {})
      [] d = "fee" -> IF c.block.base_fee > 0 THEN {"base-1", "base", "zero", "huge"} ELSE {"zero", "huge"}
      [] d = "prio" -> IF k \in DynKinds THEN {"eqfee"} \cup (IF c.tx.fee < Huge THEN {"fee+1"} ELSE {}) ELSE {}
      [] d = "value" -> {"zero", "huge"}
      \* EIP-3607 is written for London; a delegation designator exists from Prague.  Earlier
      \* forks are left out (the EIP is silent / the situation cannot arise).
      [] d = "code" -> (IF From(f, "LONDON") THEN {"contract"} ELSE {}) \cup (IF From(f, "PRAGUE") THEN {"delegation"} ELSE {})
      [] d = "nonce" -> {"low", "high", "last", "max"}
      [] d = "balance" -> IF c.cost > Huge THEN {}
                          ELSE (IF c.cost >= 1 THEN {"short"} ELSE {}) \cup (IF c.cost < Huge THEN {"spare"} ELSE {})

NoSel == [fork |-> "", kind |-> "", to |-> "", devs |-> <<>>]
LastIdx(s) == IF s.devs = <<>> THEN 0 ELSE DimIdx(s.devs[Len(s.devs)][1])

EmitCase(s) ==
    LET c == Concrete(s)
        bad == Violated(c.tx, c.sender, c.block, CaseCfg, s.fork)
        ok == Valid(c.tx, c.sender, c.block, CaseCfg, s.fork)
    IN PrintT("CASE " \o ToJson(
         [hist |-> <<>>,
          op |-> [op |-> "validate", fork |-> s.fork, kind |-> s.kind, devs |-> s.devs, tx |-> c.tx,
                  sender |-> c.sender, block |-> c.block, cfg |-> CaseCfg,
                  violated |-> bad, cost |-> c.cost],        \* diagnostics: broken rules, maximal cost (TooBig = does not fit)
          post |-> [preverify |-> ok, transact |-> ok]]))

\* The judged domain: an EIP-1559 transaction is submitted from London on.  (Blob and set-code
\* baselines are submitted in every fork: before their fork the implementation polices the
\* blob fields / the authorization list, and these are present whatever else deviates.)
InDomain(f, k) == k = "eip1559" => From(f, "LONDON")

ChooseBaseline ==
    /\ sel = NoSel
    /\ \E f \in Forks, k \in Kinds, t \in Tos :
         LET s2 == [fork |-> f, kind |-> k, to |-> t, devs |-> <<>>] IN
         InDomain(f, k) /\ sel' = s2 /\ EmitCase(s2)
    /\ UNCHANGED <<fork, world, last, ghost, hist>>

Deviate ==
    /\ sel # NoSel
    /\ Len(sel.devs) < MaxDev
    /\ LET c == Concrete(sel) IN
       \E i \in (LastIdx(sel) + 1)..Len(DimSeq) :
        /\ DimSeq[i] \in DevDims
        /\ \E a \in Alternatives(sel, c, DimSeq[i]) :
          LET s2 == [sel EXCEPT !.devs = Append(@, <<DimSeq[i], a>>)] IN
          sel' = s2 /\ EmitCase(s2)
    /\ UNCHANGED <<fork, world, last, ghost, hist>>

World0 == [nonce |-> 5, sbal |-> 3000000, rbal |-> 9, cbal |-> 7, burnt |-> 0, minted |-> 0]
NoGhost == [op |-> "", cls |-> ""]
InitCases == sel = NoSel /\ fork = "" /\ world = World0 /\ last = TRUE /\ ghost = NoGhost /\ hist = <<>>
NextCases == ChooseBaseline \/ Deviate
ViewCases == sel

\* ---- properties of the predicate itself, checked by TLC on every generated case
KindExists(k, f) == CASE k = "legacy" -> TRUE
                      [] k = "eip2930" -> From(f, "BERLIN")
                      [] k = "eip1559" -> From(f, "LONDON")
                      [] k = "eip4844" -> From(f, "CANCUN")
                      [] k = "eip7702" -> From(f, "PRAGUE")
CreateAllowed(k) == k \in {"legacy", "eip2930", "eip1559"}

\* The conjunction and the named rules are the same predicate.
ValidIffNoRuleViolated ==
    sel # NoSel => LET c == Concrete(sel) IN
        Valid(c.tx, c.sender, c.block, CaseCfg, sel.fork) <=> (Violated(c.tx, c.sender, c.block, CaseCfg, sel.fork) = <<>>)

\* The baseline of every type is valid exactly where the type exists (so the deviations are
\* deviations from a valid transaction, and each verdict FALSE is caused by them).
BaselineVerdict ==
    (sel # NoSel /\ sel.devs = <<>>) => LET c == Concrete(sel) IN
        Valid(c.tx, c.sender, c.block, CaseCfg, sel.fork)
            <=> (KindExists(sel.kind, sel.fork) /\ (sel.to = "call" \/ CreateAllowed(sel.kind)))

\* What validation is for: an accepted transaction can be charged up front without underflow,
\* leaves non-negative gas for execution, and never pays the beneficiary a negative tip.
ValidIsSafe ==
    sel # NoSel => LET c == Concrete(sel)  tx == c.tx  f == sel.fork
                       eff == EffPrice(tx, c.block, f)
                       blobfee == IF tx.blobcap # None /\ c.block.blob_price # None THEN Mul(c.block.blob_price, BlobGas(tx)) ELSE 0 IN
        Valid(tx, c.sender, c.block, CaseCfg, f) =>
            /\ eff <= tx.fee
            /\ From(f, "LONDON") => eff >= c.block.base_fee
            /\ Add(Add(Mul(tx.gas, eff), tx.value), blobfee) <= c.sender.balance
            /\ tx.gas >= Intrinsic(tx, f) /\ tx.gas >= FloorGas(tx, f) /\ tx.gas <= c.block.gas_limit
            /\ tx.nonce + 1 <= NonceMax
            /\ HasBlob(tx) => (From(f, "CANCUN") /\ HasPrio(tx) /\ ~IsCreate(tx))
            /\ HasAuth(tx) => (From(f, "PRAGUE") /\ HasPrio(tx) /\ ~IsCreate(tx))

\* The number embedding is sound: every amount is in the neighbourhood of 0 or of 2^256-1.
EmbeddingSound ==
    sel # NoSel => LET c == Concrete(sel)
                       small(x) == x >= 0 /\ x < Huge \div 4
                       okv(x) == small(x) \/ (x > Huge - 1000 /\ x <= Huge) IN
        /\ okv(c.tx.fee) /\ okv(c.tx.value) /\ okv(c.sender.balance)
        /\ c.tx.prio = None \/ okv(c.tx.prio)
        /\ c.tx.blobcap = None \/ okv(c.tx.blobcap)
        /\ c.cost > Huge \/ okv(c.cost)
        /\ c.tx.gas >= 0 /\ c.tx.gas <= BlockGasLimit + 1

------------------------------------------------------------------------------
(* Part 3 -- rejection has no effect.

   One Evm over one database.  The world is what the property can see: the sender's nonce and
   balance, the recipient's and the beneficiary's balance.  Transactions are calls to an account
   without code and with empty calldata, so an accepted one uses exactly its intrinsic gas and
   the new world is determined by the Yellow Paper's final-state rules:
       sender   -= gas_used * effective_price + value (+ blob_gas * blob_price, burnt)
       recipient += value
       beneficiary += gas_used * (effective_price - base_fee from London; the base fee is burnt)
   A rejected transaction, and a validation-only call (`preverify`), change nothing.  `credit`
   is a deposit written to the database from outside the Evm (another block, a test fixture):
   it makes "every later transaction behaves as if the rejected one had never been submitted"
   observable -- a transaction rejected for lack of funds must be accepted after the deposit. *)

HistCfg == [chain_id |-> 1]
HistBlock(f) == [gas_limit |-> BlockGasLimit, base_fee |-> 10,
                 blob_price |-> IF From(f, "CANCUN") THEN BlobPrice ELSE None,
                 prevrandao |-> From(f, "MERGE")]
Sender(w) == [nonce |-> w.nonce, balance |-> w.sbal, code |-> "none"]
HistGas == 60000
Deposit == 1000000
BigValue == 3000000       \* more than the initial balance, less than balance + Deposit

HistClasses ==
    <<"ok", "ok2930", "ok1559", "ok4844", "ok7702", "big", "drain", "overdraw", "nonce_low", "nonce_high",
      "over_block", "chain_wrong", "intrinsic_low", "fee_zero", "fee_low", "prio_high", "blob_price",
      "blob_none", "auth_empty", "al_early">>

\* The transaction of a class, relative to the current world; `None` fields as in part 1.
HistTx(cls, w, f) ==
    LET b == [to |-> "call", gas |-> HistGas, fee |-> 12, prio |-> None, value |-> 1000, zeros |-> 0, nonzeros |-> 0,
              nonce |-> w.nonce, chain |-> None, al_addrs |-> 0, al_keys |-> 0, blobs |-> <<>>, blobcap |-> None,
              auth |-> None]
        dyn == [b EXCEPT !.prio = 1, !.chain = 1]
        blob == [dyn EXCEPT !.blobs = <<1, 1>>, !.blobcap = BlobPrice + 1]
    IN CASE cls = "ok" -> b
         [] cls = "ok2930" -> [b EXCEPT !.chain = 1, !.al_addrs = 1, !.al_keys = 2]
         [] cls = "ok1559" -> dyn
         [] cls = "ok4844" -> blob
         [] cls = "ok7702" -> [dyn EXCEPT !.auth = 1]
         [] cls = "big" -> [b EXCEPT !.value = BigValue]                         \* affordable only after a deposit
         [] cls = "drain" -> [b EXCEPT !.value = w.sbal - HistGas * 12]          \* maximal cost = balance
         [] cls = "overdraw" -> [b EXCEPT !.value = w.sbal - HistGas * 12 + 1]   \* one wei short (found after the account is loaded)
         [] cls = "nonce_low" -> [b EXCEPT !.nonce = w.nonce - 1]
         [] cls = "nonce_high" -> [b EXCEPT !.nonce = w.nonce + 1]
         [] cls = "over_block" -> [b EXCEPT !.gas = BlockGasLimit + 1]           \* found before any state is read
         [] cls = "chain_wrong" -> [b EXCEPT !.chain = 2]
         [] cls = "intrinsic_low" -> [b EXCEPT !.gas = 20999]
         [] cls = "fee_zero" -> [b EXCEPT !.fee = 0]                             \* free before London, under the base fee after
         [] cls = "fee_low" -> [b EXCEPT !.fee = 9]
         [] cls = "prio_high" -> [dyn EXCEPT !.prio = 13]
         [] cls = "blob_price" -> [blob EXCEPT !.blobcap = BlobPrice - 1]
         [] cls = "blob_none" -> [blob EXCEPT !.blobs = <<>>]
         [] cls = "auth_empty" -> [dyn EXCEPT !.auth = 0]
         [] cls = "al_early" -> [b EXCEPT !.al_addrs = 1, !.al_keys = 2]

\* Which classes are submitted in which fork / world (types only where they exist: crossing
\* forks is the business of part 2).
HistEnabled(cls, w, f) ==
    CASE cls \in {"ok2930"} -> From(f, "BERLIN")
      [] cls \in {"ok1559", "prio_high"} -> From(f, "LONDON")
      [] cls \in {"ok4844", "blob_price", "blob_none"} -> From(f, "CANCUN")
      [] cls \in {"ok7702", "auth_empty"} -> From(f, "PRAGUE")
      [] cls = "al_early" -> ~From(f, "BERLIN")
      [] cls \in {"drain", "overdraw"} -> w.sbal >= HistGas * 12
      [] OTHER -> TRUE

\* Final state of an accepted transaction (a call without code to run).
Apply(w, tx, f) ==
    LET blk == HistBlock(f)
        eff == EffPrice(tx, blk, f)
        used == Max(Intrinsic(tx, f), FloorGas(tx, f))
        london == From(f, "LONDON")
        blobfee == IF tx.blobcap # None THEN blk.blob_price * BlobGas(tx) ELSE 0
    IN [w EXCEPT !.nonce = @ + 1,
                 !.sbal = @ - used * eff - tx.value - blobfee,
                 !.rbal = @ + tx.value,
                 !.cbal = @ + used * (IF london THEN eff - blk.base_fee ELSE eff),
                 !.burnt = @ + blobfee + (IF london THEN used * blk.base_fee ELSE 0)]

Proj == [fork |-> fork, nonce |-> world.nonce, sbal |-> world.sbal, rbal |-> world.rbal, cbal |-> world.cbal,
         accept |-> last]
ProjOf(f, w, l) == [fork |-> f, nonce |-> w.nonce, sbal |-> w.sbal, rbal |-> w.rbal, cbal |-> w.cbal, accept |-> l]

Emit(op, post) == PrintT("EDGE " \o ToJson([hist |-> hist, pre |-> Proj, op |-> op, post |-> post]))

\* A submission that leaves the world alone (rejected, or validation only) is remembered in
\* `ghost`.  The specification never reads it: that is the property.  It is part of the view so
\* that the dump contains, for every world, histories in which such a submission came before.
Step(op, f, w, l) ==
    /\ fork' = f /\ world' = w /\ last' = l /\ hist' = Append(hist, op)
    /\ ghost' = IF op.op \in {"transact_commit", "preverify"} /\ w = world THEN [op |-> op.op, cls |-> op.cls] ELSE ghost
    /\ Emit(op, ProjOf(f, w, l))
    /\ UNCHANGED sel

Open == /\ fork = ""
        /\ \E f \in Forks :
             Step([op |-> "open", fork |-> f, block |-> HistBlock(f), cfg |-> HistCfg,
                   nonce |-> World0.nonce, sbal |-> World0.sbal, rbal |-> World0.rbal, cbal |-> World0.cbal],
                  f, World0, TRUE)

\* transact_commit: validate, and if valid execute and write the result to the database.
Transact ==
    /\ fork # ""
    /\ \E i \in 1..Len(HistClasses) :
         LET cls == HistClasses[i] IN
         /\ HistEnabled(cls, world, fork)
         /\ LET tx == HistTx(cls, world, fork)
                ok == Valid(tx, Sender(world), HistBlock(fork), HistCfg, fork) IN
            Step([op |-> "transact_commit", cls |-> cls, tx |-> tx], fork,
                 IF ok THEN Apply(world, tx, fork) ELSE world, ok)

\* preverify_transaction: the verdict only.
Preverify ==
    /\ fork # ""
    /\ \E i \in 1..Len(HistClasses) :
         LET cls == HistClasses[i] IN
         /\ HistEnabled(cls, world, fork)
         /\ LET tx == HistTx(cls, world, fork)
                ok == Valid(tx, Sender(world), HistBlock(fork), HistCfg, fork) IN
            Step([op |-> "preverify", cls |-> cls, tx |-> tx], fork, world, ok)

Credit == /\ fork # ""
          /\ Step([op |-> "credit", a |-> Deposit], fork,
                  [world EXCEPT !.sbal = @ + Deposit, !.minted = @ + Deposit], TRUE)

InitHist == InitCases
NextHist == /\ Len(hist) < MaxHist
            /\ (Open \/ Transact \/ Preverify \/ Credit)
ViewHist == <<fork, world, last, ghost>>

\* ---- the property's second sentence, as properties of the specification
LastOp == hist'[Len(hist')]
Stepped == hist' # hist
RejectionChangesNothing ==
    [][(Stepped /\ LastOp.op \in {"transact_commit", "preverify"} /\ ~last') => world' = world]_vars
PreverifyChangesNothing ==
    [][(Stepped /\ LastOp.op = "preverify") => world' = world]_vars
AcceptedCommitIsATransaction ==
    [][(Stepped /\ LastOp.op = "transact_commit" /\ last')
          => /\ world'.nonce = world.nonce + 1
             /\ world'.sbal <= world.sbal - LastOp.tx.value
             /\ world'.rbal = world.rbal + LastOp.tx.value
             /\ world'.cbal >= world.cbal]_vars
\* wei is neither created nor lost, and nobody goes negative (what Valid guarantees)
Conservation ==
    world.sbal + world.rbal + world.cbal + world.burnt
        = World0.sbal + World0.rbal + World0.cbal + world.minted
NoDebt == world.sbal >= 0 /\ world.rbal >= 0 /\ world.cbal >= 0 /\ world.burnt >= 0
==============================================================================
