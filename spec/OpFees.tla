------------------------------- MODULE OpFees -------------------------------
(* Who pays what to whom in an Optimism (OP Stack) transaction -- property C33.

   Written from the OP Stack specification (deposits.md, exec-engine.md "fees", the Ecotone / Fjord /
   Isthmus upgrade notes) and op-geth's state transition as the reference reading of it; not from
   revm's handler_register.rs.

   WHAT IS MODELLED.  Six balances -- the sender `s`, the recipient `r`, the block beneficiary `cb`
   (in practice the sequencer fee vault), the base-fee vault `bv` (0x4200..0019), the L1-fee vault
   `lv` (0x4200..001A), the operator-fee vault `ov` (0x4200..001B) -- and the sender's nonce, under
   a sequence of transactions of three kinds:

     deposit   (L1-originated; carries `mint`).  `mint` wei are created in the sender's account
               before anything else and are never taken back.  The nonce is incremented.  No gas is
               bought: no fee of any kind is paid and nobody is credited.  Then the call executes;
               if the sender (after the mint) cannot pay `value`, or the callee reverts or halts,
               the value transfer is undone -- the mint and the nonce increment persist.
     system    a deposit with the isSystemTx flag (the L1-attributes transaction of Bedrock).  Money
               moves exactly as for a deposit.  From Regolith the flag is disabled: such a
               transaction is not processed.
     regular   (sequenced on L2).  The sender must be able to afford
                   gas_limit * max_fee + value + L1cost + operatorFee(gas_limit)
               or the transaction is not processed at all (nothing changes).  Otherwise it buys
               gas_limit gas at the effective price, pays the L1 data fee and (from Isthmus) the
               operator fee for gas_limit up front, the nonce is incremented, the call executes
               (value reaches the recipient iff it succeeds), and afterwards
                   - the sender gets back unused gas at the effective price and the operator fee
                     difference  operatorFee(gas_limit) - operatorFee(gas_used),
                   - the beneficiary gets  gas_used * (effective price - base fee),
                   - the base-fee vault    gas_used * base fee,
                   - the L1-fee vault      the L1 data fee,
                   - the operator vault    operatorFee(gas_used)            (from Isthmus).
               operatorFee(g) = floor(g * scalar / 10^6) + constant.

   L1 DATA FEE of an enveloped transaction with z zero bytes and nz non-zero bytes:
     Bedrock   floor( (4z + 16nz + 16*68 + overhead) * l1BaseFee * scalar / 10^6 )
     Regolith  the same without the 68 signature bytes
     Ecotone   floor( (4z + 16nz) * (16 * l1BaseFee * baseFeeScalar + l1BlobBaseFee * blobBaseFeeScalar) / 16*10^6 ),
               and the Bedrock function while the Ecotone scalars are still unset (first Ecotone block)
     Fjord+    NOT specified here: it depends on a FastLZ size estimate of the envelope.  From Fjord
               the fee is an INPUT of the transaction (`l1in`): the specification decides how that
               amount is charged and distributed, not how it is estimated.

   EXECUTION FACTS.  This module does not contain an EVM.  What the execution of the call does is an
   input of each transaction:
     exec      what the callee does: "transfer" (no code), "clear" (succeeds and earns a storage
               refund), "revert", "invalid" (halts)
     used      gas finally used, i.e. after the refund was subtracted (intrinsic gas, the gas
               schedule, the refund cap and the EIP-7623 floor are taken as given)
     refunded  the refund that was granted (bookkeeping only; `used` is already net of it)
   With Measured = TRUE the facts of a transaction come from FactsTree (recorded from the real
   execution of the very same history; the variable `known` walks down that tree along the
   history); with Measured = FALSE they range over UsedSet / L1CostSet so that TLC checks the
   invariants below for arbitrary facts.

   NUMBERS are plain integers (wei, gas).  Fixed-point scalars are written as fractions n/d with
   d | 10^6 (the chain stores n/d * 10^6), which keeps every intermediate product below 2^31:
   floor(x * (n/d * 10^6) / 10^6) = floor(x * n / d). *)
EXTENDS Integers, Sequences, TLC, Json

CONSTANTS
    Configs,     \* sequence of chain configurations [fork, kinds, l1, opfee, reward]:
                 \*   reward = FALSE: the handler was built with beneficiary rewards disabled (property C22): the
                 \*            beneficiary and the three fee vaults receive nothing; the sender pays exactly what
                 \*            it pays with rewards enabled (the fees are simply not credited to anybody)
                 \*   fork  \in ForkNames; kinds = transaction kinds offered in this configuration;
                 \*   l1    = [basefee, overhead, sn, sd, blobfee, bn, empty]   (scalar sn/sd, blob scalar bn/sd)
                 \*   opfee = [n, d, c]                                         (scalar n/d, constant c)
    InitBal,     \* initial balance of the sender (every other balance starts at 0)
    BaseFee,     \* L2 base fee of the block
    GasLimit,    \* gas limit of every transaction
    Envelopes,   \* sequence of [z, nz]: byte counts of the enveloped transactions in use
    Alphabet,    \* sequence of transactions that may be submitted; their execution-fact fields
                 \* (used, refunded, l1in) are placeholders, filled in per history by Tx
    Measured,    \* TRUE: execution facts from FactsTree; FALSE: from UsedSet / L1CostSet
    FactsTree,   \* recorded facts: node = [f |-> <<used, refunded, l1in>>, k |-> <<children>>]; the children
                 \* of the root are the configurations, below that one child per Alphabet entry:
                 \* the node reached by config i, ops j1, j2, .. holds the facts of the last of them
    UsedSet, L1CostSet,
    MaxHist

\* (variable names are kept different from the record field names of the JSON vocabulary)
VARIABLES chain,          \* the chain configuration, an element of Configs (chosen initially, never changes)
          known,          \* the recorded facts about continuations of the current history (a FactsTree node)
          balance,        \* the six balances [s, r, cb, bv, lv, ov]
          senderNonce,
          mintedTotal,    \* ghost: total minted by processed deposits
          lastRes,        \* outcome of the last transaction: "none", "success", "failed", "rejected"
          lastUsed, lastRefunded, lastL1,   \* gas used / refunded by, and L1 data fee of, the last transaction
          hist
vars == <<chain, known, balance, senderNonce, mintedTotal, lastRes, lastUsed, lastRefunded, lastL1, hist>>

ForkNames == <<"BEDROCK", "REGOLITH", "CANYON", "ECOTONE", "FJORD", "GRANITE", "HOLOCENE", "ISTHMUS">>
ForkNo(f) == CHOOSE i \in DOMAIN ForkNames : ForkNames[i] = f
Cfg == chain
From(f) == ForkNo(Cfg.fork) >= ForkNo(f)
P == Cfg.l1

ASSUME /\ \A i \in DOMAIN Configs : Configs[i].fork \in {ForkNames[j] : j \in DOMAIN ForkNames}
       /\ \A i \in DOMAIN Alphabet :
            LET a == Alphabet[i] IN
            /\ a.op = "tx" /\ a.id = i
            /\ a.kind \in {"regular", "deposit", "system"}
            /\ a.exec \in {"transfer", "clear", "revert", "invalid"}
            /\ a.env \in DOMAIN Envelopes
            /\ a.mint >= 0 /\ a.value >= 0
            \* a regular transaction mints nothing; a 1559 tip never exceeds the fee cap
            /\ a.kind = "regular" => a.mint = 0 /\ a.prio <= a.price
            \* a deposit has no gas price (its gas was paid for on L1)
            /\ a.kind # "regular" => a.price = 0 /\ a.prio = -1

Min(a, b) == IF a < b THEN a ELSE b
Succeeds(exec) == exec \in {"transfer", "clear"}
Total(b) == b.s + b.r + b.cb + b.bv + b.lv + b.ov

-----------------------------------------------------------------------------
\* ---- fees

\* price per gas actually paid: legacy (prio = -1): the gas price; EIP-1559: min(cap, base fee + tip)
EffPrice(o) == IF o.prio < 0 THEN o.price ELSE Min(o.price, BaseFee + o.prio)

DataGas(env) == 4 * env.z + 16 * env.nz + (IF From("REGOLITH") THEN 0 ELSE 16 * 68)
BedrockCost(env) == ((DataGas(env) + P.overhead) * P.basefee * P.sn) \div P.sd
EcotoneCost(env) == (DataGas(env) * (16 * P.basefee * P.sn + P.blobfee * P.bn)) \div (16 * P.sd)
L1Cost(env, l1in) ==
    IF From("FJORD") THEN l1in
    ELSE IF From("ECOTONE") /\ ~P.empty THEN EcotoneCost(env)
    ELSE BedrockCost(env)

OperatorFee(g) == IF From("ISTHMUS") THEN (g * Cfg.opfee.n) \div Cfg.opfee.d + Cfg.opfee.c ELSE 0

-----------------------------------------------------------------------------
\* ---- execution facts
FactsFor(a) ==
    IF Measured
    THEN LET f == known.k[a.id].f
         IN {[used |-> f[1], refunded |-> f[2], l1in |-> f[3]]}
    ELSE [used : {u \in UsedSet : u <= GasLimit}, refunded : {0},
          l1in : IF From("FJORD") /\ a.kind = "regular" THEN L1CostSet ELSE {0}]

-----------------------------------------------------------------------------
Proj == [bal |-> balance, nonce |-> senderNonce, res |-> lastRes, used |-> lastUsed,
         refunded |-> lastRefunded, l1 |-> lastL1]

\* what the harness needs to set the real chain up the same way
HarnessCfg == [fork |-> Cfg.fork, l1 |-> Cfg.l1, opfee |-> Cfg.opfee, reward |-> Cfg.reward, initbal |-> InitBal,
               basefee |-> BaseFee, gaslimit |-> GasLimit, envs |-> Envelopes]

Emit(op, post) ==
    IF Measured
    THEN PrintT("EDGE " \o ToJson([cfg |-> HarnessCfg, hist |-> hist, pre |-> Proj, op |-> op, post |-> post]))
    ELSE TRUE

Step(o, b, n, m, r, u, rf, l) ==
    /\ balance' = b /\ senderNonce' = n /\ mintedTotal' = m
    /\ lastRes' = r /\ lastUsed' = u /\ lastRefunded' = rf /\ lastL1' = l
    /\ chain' = chain
    /\ known' = IF Measured THEN known.k[o.id] ELSE known
    /\ hist' = Append(hist, o)
    /\ Emit(o, [bal |-> b, nonce |-> n, res |-> r, used |-> u, refunded |-> rf, l1 |-> l])

\* not processed: no trace in the state
Rejected(o, l) == Step(o, balance, senderNonce, mintedTotal, "rejected", 0, 0, l)

Init == /\ \E i \in DOMAIN Configs : chain = Configs[i] /\ known = FactsTree.k[i]
        /\ balance = [s |-> InitBal, r |-> 0, cb |-> 0, bv |-> 0, lv |-> 0, ov |-> 0]
        /\ senderNonce = 0 /\ mintedTotal = 0
        /\ lastRes = "none" /\ lastUsed = 0 /\ lastRefunded = 0 /\ lastL1 = 0
        /\ hist = <<>>

Deposit(o) ==
    IF o.kind = "system" /\ From("REGOLITH")
    THEN Rejected(o, 0)
    ELSE LET s1    == balance.s + o.mint                      \* the mint comes first and stays
             ok    == Succeeds(o.exec) /\ s1 >= o.value       \* the call and its value transfer
             moved == IF ok THEN o.value ELSE 0
         IN Step(o, [balance EXCEPT !.s = s1 - moved, !.r = @ + moved],
                 senderNonce + 1, mintedTotal + o.mint,
                 IF ok THEN "success" ELSE "failed", o.used, o.refunded, 0)

Regular(o) ==
    LET cost    == L1Cost(Envelopes[o.env], o.l1in)
        eff     == EffPrice(o)
        maxcost == GasLimit * o.price + o.value + cost + OperatorFee(GasLimit)
        valid   == o.price >= BaseFee /\ maxcost <= balance.s
    IN  IF ~valid THEN Rejected(o, cost)
        ELSE LET g       == o.used
                 moved   == IF Succeeds(o.exec) THEN o.value ELSE 0
                 upfront == GasLimit * eff + cost + OperatorFee(GasLimit)
                 refund  == (GasLimit - g) * eff + (OperatorFee(GasLimit) - OperatorFee(g))
                 paid    == IF Cfg.reward THEN 1 ELSE 0              \* rewards disabled: nobody is credited
             IN Step(o, [balance EXCEPT !.s  = @ - upfront - moved + refund,
                                        !.r  = @ + moved,
                                        !.cb = @ + paid * g * (eff - BaseFee),
                                        !.bv = @ + paid * g * BaseFee,
                                        !.lv = @ + paid * cost,
                                        !.ov = @ + paid * OperatorFee(g)],
                     senderNonce + 1, mintedTotal, IF Succeeds(o.exec) THEN "success" ELSE "failed",
                     g, o.refunded, cost)

Tx == LET A == Alphabet IN
      \E i \in DOMAIN A :
        LET a == A[i] IN
        /\ a.kind \in Cfg.kinds
        /\ \E f \in FactsFor(a) :
             LET o == [a EXCEPT !.used = f.used, !.refunded = f.refunded, !.l1in = f.l1in]
             IN IF o.kind = "regular" THEN Regular(o) ELSE Deposit(o)

Next == Len(hist) < MaxHist /\ Tx

Spec == Init /\ [][Next]_vars

\* The balances do not remember a transaction that was not processed, but an implementation may (whatever
\* it computed or cached while validating it).  The view therefore also distinguishes states by what the
\* LAST submitted transaction was (kind, envelope, fee fields) when it was rejected, so that every
\* continuation after every rejected transaction is explored -- not only after the empty history.
LastGhost == IF hist # <<>> /\ lastRes = "rejected"
             THEN LET o == hist[Len(hist)] IN <<o.kind, o.env, o.price, o.prio, o.value>>
             ELSE <<>>
View == <<chain, balance, senderNonce, LastGhost>>

-----------------------------------------------------------------------------
\* ---- the property, checked by TLC on this specification

NonNegative == \A k \in DOMAIN balance : balance[k] >= 0

\* money is created by deposits' mints and by nothing else; nothing is ever destroyed
\* (with rewards disabled the fees leave the sender and reach nobody: the total only shrinks)
SupplyIsInitialPlusMints == IF Cfg.reward THEN Total(balance) = InitBal + mintedTotal
                            ELSE Total(balance) <= InitBal + mintedTotal
\* C22 on Optimism: without rewards neither the beneficiary nor a fee vault ever receives anything
NoRewardNoCredit == Cfg.reward \/ (balance.cb = 0 /\ balance.bv = 0 /\ balance.lv = 0 /\ balance.ov = 0)

NoOperatorFeeBeforeIsthmus == From("ISTHMUS") \/ balance.ov = 0

Stepped == hist' # hist
LastOp  == hist'[Len(hist')]

\* non-deposit: sender's debit = value transferred + the four fee credits, and nothing else changes
RegularConservation ==
    [][(Stepped /\ LastOp.kind = "regular") =>
        LET debit == balance.s - balance'.s
            toR   == balance'.r - balance.r
            dcb   == balance'.cb - balance.cb
            dbv   == balance'.bv - balance.bv
            dlv   == balance'.lv - balance.lv
            dov   == balance'.ov - balance.ov
        IN /\ Cfg.reward => debit = toR + dcb + dbv + dlv + dov
           /\ ~Cfg.reward => (debit >= toR /\ dcb = 0 /\ dbv = 0 /\ dlv = 0 /\ dov = 0)
           /\ toR \in {0, LastOp.value} /\ dcb >= 0 /\ dbv >= 0 /\ dlv >= 0 /\ dov >= 0
           /\ mintedTotal' = mintedTotal
           \* never more than what the up-front check covered
           /\ debit <= GasLimit * LastOp.price + LastOp.value + lastL1' + OperatorFee(GasLimit)
           \* a processed transaction pays the L1 fee it was quoted, whatever the execution did
           /\ lastRes' # "rejected" =>
                 /\ senderNonce' = senderNonce + 1
                 /\ Cfg.reward => (dlv = lastL1' /\ dbv = lastUsed' * BaseFee)
                 \* the sender's debit does not depend on whether anybody is credited
                 /\ debit = toR + lastUsed' * EffPrice(LastOp) + lastL1' + OperatorFee(lastUsed')]_vars

\* deposit: exactly `mint` is created, the nonce moves, no fee is paid; on failure only these persist
DepositMintsExactly ==
    [][(Stepped /\ LastOp.kind # "regular" /\ lastRes' # "rejected") =>
        /\ Total(balance') = Total(balance) + LastOp.mint
        /\ mintedTotal' = mintedTotal + LastOp.mint
        /\ senderNonce' = senderNonce + 1
        /\ balance'.cb = balance.cb /\ balance'.bv = balance.bv
        /\ balance'.lv = balance.lv /\ balance'.ov = balance.ov
        /\ (lastRes' = "failed"  => balance'.s = balance.s + LastOp.mint /\ balance'.r = balance.r)
        /\ (lastRes' = "success" => /\ balance'.s = balance.s + LastOp.mint - LastOp.value
                                    /\ balance'.r = balance.r + LastOp.value)]_vars

RejectedChangesNothing ==
    [][(Stepped /\ lastRes' = "rejected") =>
        balance' = balance /\ senderNonce' = senderNonce /\ mintedTotal' = mintedTotal]_vars
=============================================================================
