------------------------------ MODULE Journal ------------------------------
(* The journaled state of one transaction (properties C06, parts of C07/C08/C34).

   This specification does NOT keep an undo log.  `Checkpoint` pushes a *snapshot* of the whole
   observable state; `Revert` puts the snapshot back; `Commit` forgets the snapshot.  That is the
   property ("reverting a checkpoint restores every observable aspect of the journaled state to
   its value when the checkpoint was taken") turned into the definition of the operation, so any
   implementation whose undo log forgets an entry kind, undoes in the wrong order or mutates
   state before a fallible step disagrees with it on some short history.

   What a revert does NOT undo, by the property's own wording and Ethereum's rules:
     - that an account / slot has been fetched from the database (it stays cached; it reads as
       its database value and, per EIP-2929, as *cold* again);
     - transaction-level pre-warming: addresses in PreWarm and everything loaded through
       InitialAccountLoad (access list, sender, ...) stay warm for the whole transaction;
     - the RIPEMD-160 precompile (address 3) stays touched once touched (the consensus quirk of
       mainnet block 2,675,119, kept by every client from Spurious Dragon on).

   Abstract values.  Balances are 0..Cap-1 and the harness scales them so that reaching Cap is
   overflowing 2^256.  Nonces are small numbers, with NBig standing for u64::MAX (values near
   NBig are equally near the maximum).  Code is an id (0 = no code).  Storage values are Val.

   Each action mirrors one public operation of the code and states its documented
   preconditions as enabling conditions ("account must be loaded"). *)
EXTENDS Integers, Sequences, FiniteSets, TLC, Json

CONSTANTS Addr,      \* addresses (small integers; RIPEMD is address 3)
          Slot, Val, \* storage keys and values (0 = empty slot)
          Cap,       \* balance overflow bound
          NBig,      \* model value of the maximal nonce
          Db,        \* the database: [Addr -> [ex, bal, nonce, code, stor: [Slot -> Val]]]
          PreWarm,   \* subset of Addr warm from the start of the transaction (precompiles, coinbase)
          SD,        \* Spurious Dragon rules active (EIP-161)
          CANCUN,    \* Cancun rules active (EIP-6780)
          Codes,     \* code ids usable by SetCode
          Values,    \* amounts usable by Transfer / CreateAccount
          MaxDepth, MaxHist,
          OverwriteCode, \* allow set_code over existing code inside a checkpoint
          Sim,       \* TRUE in simulation mode: keep the expected projection after every step
          Ops        \* subset of operation names enabled in this configuration

RIPEMD == 3

VARIABLES acct,   \* [Addr -> account record]
          slot,   \* [Addr -> [Slot -> slot record]]
          tstor,  \* transient storage [Addr -> [Slot -> Val]]
          logs,   \* sequence of log records
          snaps,  \* stack of snapshots, one per open checkpoint
          dirty,  \* "" or the failure after which only Revert is meaningful
          ret,    \* result of the last operation
          hist,   \* operations so far (hidden by View)
          exps    \* simulation mode: expected projection after each operation (hidden by View)
vars == <<acct, slot, tstor, logs, snaps, dirty, ret, hist, exps>>

------------------------------------------------------------------------------
\* Database and helpers

HasStorage(a) == \E k \in Slot : Db[a].stor[k] # 0

Unloaded == [loaded |-> FALSE, bal |-> 0, nonce |-> 0, code |-> 0, ne |-> FALSE, touched |-> FALSE,
             created |-> FALSE, destroyed |-> FALSE, cold |-> FALSE, sticky |-> FALSE]

\* An account as fetched from the database.  `sticky` = warm for the whole transaction.
Fetched(a, sticky) ==
    [loaded |-> TRUE, bal |-> IF Db[a].ex THEN Db[a].bal ELSE 0,
     nonce |-> IF Db[a].ex THEN Db[a].nonce ELSE 0, code |-> IF Db[a].ex THEN Db[a].code ELSE 0,
     ne |-> ~Db[a].ex, touched |-> FALSE, created |-> FALSE, destroyed |-> FALSE,
     cold |-> FALSE, sticky |-> sticky]

NoSlot == [loaded |-> FALSE, present |-> 0, original |-> 0, cold |-> FALSE, sticky |-> FALSE]

IsEmpty(r) == r.bal = 0 /\ r.nonce = 0 /\ r.code = 0
\* "dead" in the sense used for new-account charges: empty from Spurious Dragon on; before, an
\* account that is absent from the state trie and has not been touched in this transaction.
Dead(r) == IF SD THEN IsEmpty(r) ELSE r.ne /\ ~r.touched

\* Loading an account (first access fetches it; a cold cached account becomes warm).
\* Result: <<new account function, was this access cold>>
Load(ac, a) ==
    IF ~ac[a].loaded
    THEN <<[ac EXCEPT ![a] = Fetched(a, a \in PreWarm)], a \notin PreWarm>>
    ELSE IF ac[a].cold THEN <<[ac EXCEPT ![a].cold = FALSE], TRUE>>
    ELSE <<ac, FALSE>>

\* Value of a slot when first read: zero for an account created in this transaction.
SlotFetch(ac, a, k, sticky) ==
    LET v == IF ac[a].created THEN 0 ELSE Db[a].stor[k] IN
    [loaded |-> TRUE, present |-> v, original |-> v, cold |-> FALSE, sticky |-> sticky]

\* Reading a slot: <<new slot function, value, was this access cold>>
SLoadF(ac, sl, a, k) ==
    IF ~sl[a][k].loaded
    THEN LET s == SlotFetch(ac, a, k, FALSE) IN <<[sl EXCEPT ![a][k] = s], s.present, TRUE>>
    ELSE IF sl[a][k].cold THEN <<[sl EXCEPT ![a][k].cold = FALSE], sl[a][k].present, TRUE>>
    ELSE <<sl, sl[a][k].present, FALSE>>

Depth == Len(snaps)

------------------------------------------------------------------------------
\* Projection: what the harness compares after every operation.

Flags(r) == (IF r.touched THEN "t" ELSE "") \o (IF r.created THEN "c" ELSE "")
            \o (IF r.destroyed THEN "d" ELSE "") \o (IF r.cold THEN "k" ELSE "")
            \o (IF Dead(r) THEN "e" ELSE "")
PAcct(r) == IF r.loaded THEN <<r.bal, r.nonce, r.code, Flags(r)>> ELSE <<>>
PSlot(s) == IF s.loaded THEN <<s.present, s.original, IF s.cold THEN 1 ELSE 0>> ELSE <<>>

ProjOf(ac, sl, ts, lg, sn, d, r) ==
    IF d # "" THEN [dirty |-> d, depth |-> Len(sn)]
    ELSE [acct |-> [a \in Addr |-> PAcct(ac[a])],
          slot |-> [a \in Addr |-> [k \in Slot |-> PSlot(sl[a][k])]],
          tstor |-> ts, logs |-> lg, depth |-> Len(sn), dirty |-> "", ret |-> r]

Proj == ProjOf(acct, slot, tstor, logs, snaps, dirty, ret)

\* One step: set every variable, extend the history, print the edge.
Step(op, ac, sl, ts, lg, sn, d, r) ==
    /\ acct' = ac /\ slot' = sl /\ tstor' = ts /\ logs' = lg /\ snaps' = sn /\ dirty' = d /\ ret' = r
    /\ hist' = Append(hist, op)
    /\ IF Sim
       THEN exps' = Append(exps, ProjOf(ac, sl, ts, lg, sn, d, r))
       ELSE /\ exps' = exps
            /\ PrintT("EDGE " \o ToJson([hist |-> hist, pre |-> Proj, op |-> op,
                                         post |-> ProjOf(ac, sl, ts, lg, sn, d, r)]))

Same(op, r) == Step(op, acct, slot, tstor, logs, snaps, dirty, r)

------------------------------------------------------------------------------
Init ==
    /\ acct = [a \in Addr |-> Unloaded]
    /\ slot = [a \in Addr |-> [k \in Slot |-> NoSlot]]
    /\ tstor = [a \in Addr |-> [k \in Slot |-> 0]]
    /\ logs = <<>> /\ snaps = <<>> /\ dirty = "" /\ ret = "" /\ hist = <<>> /\ exps = <<>>

On(name) == name \in Ops /\ dirty = ""

\* ---- loads
LoadAccount == On("load_account") /\ \E a \in Addr :
    LET l == Load(acct, a) IN
    Step([op |-> "load_account", a |-> a], l[1], slot, tstor, logs, snaps, "", IF l[2] THEN "cold" ELSE "warm")

LoadCode == On("load_code") /\ \E a \in Addr :
    LET l == Load(acct, a) IN
    Step([op |-> "load_code", a |-> a], l[1], slot, tstor, logs, snaps, "", IF l[2] THEN "cold" ELSE "warm")

\* Transaction-level loading (access list etc.): not journaled, never becomes cold.  Only used on
\* accounts that are not cached yet or are warm (it is a start-of-transaction operation).
InitialAccountLoad == On("initial_account_load") /\ \E a \in Addr, ks \in SUBSET Slot :
    /\ ~acct[a].loaded \/ ~acct[a].cold
    /\ LET ac == IF acct[a].loaded THEN acct ELSE [acct EXCEPT ![a] = Fetched(a, TRUE)]
           sl == [slot EXCEPT ![a] = [k \in Slot |->
                      IF k \in ks /\ ~slot[a][k].loaded THEN SlotFetch(ac, a, k, TRUE) ELSE slot[a][k]]]
           keys == [k \in Slot |-> IF k \in ks THEN 1 ELSE 0]
       IN Step([op |-> "initial_account_load", a |-> a, ks |-> keys], ac, sl, tstor, logs, snaps, "", "")

\* ---- simple account updates (documented precondition: the account is loaded)
Touch == On("touch") /\ \E a \in Addr :
    Step([op |-> "touch", a |-> a],
         IF acct[a].loaded THEN [acct EXCEPT ![a].touched = TRUE] ELSE acct,
         slot, tstor, logs, snaps, "", "")

IncNonce == On("inc_nonce") /\ \E a \in Addr :
    /\ acct[a].loaded
    /\ IF acct[a].nonce = NBig
       THEN Same([op |-> "inc_nonce", a |-> a], "none")
       ELSE Step([op |-> "inc_nonce", a |-> a],
                 [acct EXCEPT ![a].nonce = @ + 1, ![a].touched = TRUE],
                 slot, tstor, logs, snaps, "", "some")

\* Inside a checkpoint the code is only ever set on an account that has none (a contract being
\* created); replacing existing code happens at transaction level only (EIP-7702), unless the
\* configuration asks for it (OverwriteCode).
SetCode == On("set_code") /\ \E a \in Addr, c \in Codes :
    /\ acct[a].loaded
    /\ acct[a].code = 0 \/ Depth = 0 \/ OverwriteCode
    /\ Step([op |-> "set_code", a |-> a, c |-> c],
            [acct EXCEPT ![a].code = c, ![a].touched = TRUE], slot, tstor, logs, snaps, "", "")

\* ---- value transfer.  Fallible: after a failure the intermediate state is unspecified
\* (dirty) and the caller must revert the enclosing checkpoint, which must restore the snapshot.
Transfer == On("transfer") /\ \E f \in Addr, t \in Addr, v \in Values :
    LET l1 == Load(acct, f)
        l2 == Load(l1[1], t)
        ac == l2[1]
        op == [op |-> "transfer", f |-> f, t |-> t, v |-> v]
        \* Named deviation: the code marks the sender touched before it checks the balance.  The
        \* enclosing revert clears the mark again, except for the RIPEMD precompile (which can
        \* never be a sender in a real transaction); the model follows the code on that corner.
        acf == [ac EXCEPT ![f].touched = TRUE]
    IN IF ac[f].bal < v
       THEN Step(op, acf, slot, tstor, logs, snaps, "transfer:OutOfFunds", "")
       ELSE IF f # t /\ ac[t].bal + v >= Cap
       THEN Step(op, acf, slot, tstor, logs, snaps, "transfer:OverflowPayment", "")
       ELSE LET a1 == [ac EXCEPT ![f].bal = @ - v, ![f].touched = TRUE]
                a2 == [a1 EXCEPT ![t].bal = @ + v, ![t].touched = TRUE]
            IN Step(op, a2, slot, tstor, logs, snaps, "", "ok")

\* ---- storage
SLoad == On("sload") /\ \E a \in Addr, k \in Slot :
    /\ acct[a].loaded
    /\ LET r == SLoadF(acct, slot, a, k) IN
       Step([op |-> "sload", a |-> a, k |-> k], acct, r[1], tstor, logs, snaps, "",
            <<r[2], IF r[3] THEN "cold" ELSE "warm">>)

\* Result: <<original, present (before), new, cold/warm>>
SStore == On("sstore") /\ \E a \in Addr, k \in Slot, v \in Val :
    /\ acct[a].loaded
    /\ LET r == SLoadF(acct, slot, a, k)
           sl == [r[1] EXCEPT ![a][k].present = v]
       IN Step([op |-> "sstore", a |-> a, k |-> k, v |-> v], acct, sl, tstor, logs, snaps, "",
               <<r[1][a][k].original, r[2], v, IF r[3] THEN "cold" ELSE "warm">>)

TLoad == On("tload") /\ \E a \in Addr, k \in Slot :
    Same([op |-> "tload", a |-> a, k |-> k], tstor[a][k])

TStore == On("tstore") /\ \E a \in Addr, k \in Slot, v \in Val :
    Step([op |-> "tstore", a |-> a, k |-> k, v |-> v], acct, slot,
         [tstor EXCEPT ![a][k] = v], logs, snaps, "", "")

Log == On("log") /\ \E a \in Addr :
    /\ Len(logs) < 3
    /\ Step([op |-> "log", a |-> a], acct, slot, tstor, Append(logs, a), snaps, "", "")

\* ---- self-destruct of the executing contract `a` (loaded) naming beneficiary `t`.
\* Before Cancun, or when `a` was created in this transaction: `a` is marked destroyed and its
\* whole balance moves to `t` (is burnt when t = a).  From Cancun otherwise: only the balance
\* moves (nothing at all happens when t = a).  Result: <<had value, target exists (not dead, judged
\* before the credit), previously destroyed, cold/warm access of t>>.
SelfDestruct == On("selfdestruct") /\ \E a \in Addr, t \in Addr :
    /\ acct[a].loaded
    /\ LET l == Load(acct, t)
           ac == l[1]
           bal == ac[a].bal
           r == <<bal # 0, ~Dead(ac[t]), ac[a].destroyed, IF l[2] THEN "cold" ELSE "warm">>
           destroy == ~CANCUN \/ ac[a].created
           a1 == IF a # t THEN [ac EXCEPT ![t].bal = @ + bal, ![t].touched = TRUE] ELSE ac
           a2 == IF destroy THEN [a1 EXCEPT ![a].bal = 0, ![a].destroyed = TRUE]
                 ELSE IF a # t THEN [a1 EXCEPT ![a].bal = 0] ELSE a1
       IN /\ a # t => ac[t].bal + bal < Cap      \* total supply never exceeds 2^256
          /\ Step([op |-> "selfdestruct", a |-> a, t |-> t], a2, slot, tstor, logs, snaps, "", r)

\* ---- checkpoints
Snapshot == [acct |-> acct, slot |-> slot, tstor |-> tstor, nlogs |-> Len(logs)]

Checkpoint == On("checkpoint") /\ Depth < MaxDepth
    /\ Step([op |-> "checkpoint"], acct, slot, tstor, logs, Append(snaps, Snapshot), "", "")

Commit == On("checkpoint_commit") /\ Depth > 0
    /\ Step([op |-> "checkpoint_commit"], acct, slot, tstor, logs, SubSeq(snaps, 1, Depth - 1), "", "")

\* What a revert leaves of the current state `ac/sl` given the snapshot `s`.
RevAcct(ac, s, a) ==
    LET keepTouch == SD /\ a = RIPEMD /\ ac[a].touched IN
    IF s.acct[a].loaded
    THEN [s.acct[a] EXCEPT !.touched = @ \/ keepTouch]
    ELSE IF ac[a].loaded
    THEN [Fetched(a, ac[a].sticky) EXCEPT !.cold = ~ac[a].sticky, !.touched = keepTouch]
    ELSE ac[a]

RevSlot(sl, s, a, k) ==
    IF s.slot[a][k].loaded THEN s.slot[a][k]
    ELSE IF sl[a][k].loaded
    THEN [sl[a][k] EXCEPT !.present = sl[a][k].original, !.cold = ~sl[a][k].sticky]
    ELSE sl[a][k]

RevertTo(ac, sl, s) ==
    <<[a \in Addr |-> RevAcct(ac, s, a)], [a \in Addr |-> [k \in Slot |-> RevSlot(sl, s, a, k)]]>>

\* Enabled also when dirty: it is what every caller does after a failed transfer.
Revert == "checkpoint_revert" \in Ops /\ Depth > 0 /\
    LET s == snaps[Depth]
        r == RevertTo(acct, slot, s)
    IN Step([op |-> "checkpoint_revert"], r[1], r[2], s.tstor, SubSeq(logs, 1, s.nlogs),
            SubSeq(snaps, 1, Depth - 1), "", "")

\* ---- account creation: opens a checkpoint, then checks for a collision (code, nonce, or
\* non-empty storage per EIP-7610) and for an overflowing endowment; on failure the checkpoint is
\* reverted inside the operation, so the state afterwards equals the state before.
\* Preconditions documented by the code: caller and target loaded, caller's balance sufficient.
CreateAccount == On("create_account_checkpoint") /\ Depth < MaxDepth /\
    \E c \in Addr, t \in Addr, v \in Values :
    /\ c # t /\ acct[c].loaded /\ acct[t].loaded /\ acct[c].bal >= v
    /\ ~acct[t].created      \* an address is derived from (creator, nonce | salt): never created twice
    /\ LET op == [op |-> "create_account_checkpoint", c |-> c, t |-> t, v |-> v,
                  hs |-> HasStorage(t)]
       IN IF acct[t].code # 0 \/ acct[t].nonce # 0 \/ HasStorage(t)
          THEN Same(op, "CreateCollision")
          ELSE IF acct[t].bal + v >= Cap
          THEN Same(op, "OverflowPayment")
          ELSE LET a1 == [acct EXCEPT ![t].created = TRUE, ![t].touched = TRUE, ![t].bal = @ + v,
                                     ![t].nonce = IF SD THEN 1 ELSE 0]
                   a2 == [a1 EXCEPT ![c].bal = @ - v]
               IN Step(op, a2, slot, tstor, logs, Append(snaps, Snapshot), "", "ok")

\* ---- end of transaction: hand out the state, start afresh (warm-preloaded set is kept).
Finalize == On("finalize") /\ Depth = 0 /\
    Step([op |-> "finalize"], [a \in Addr |-> Unloaded], [a \in Addr |-> [k \in Slot |-> NoSlot]],
         [a \in Addr |-> [k \in Slot |-> 0]], <<>>, <<>>, "", "")

Next == /\ Len(hist) < MaxHist
        /\ \/ LoadAccount \/ LoadCode \/ InitialAccountLoad \/ Touch \/ IncNonce \/ SetCode
           \/ Transfer \/ SLoad \/ SStore \/ TLoad \/ TStore \/ Log \/ SelfDestruct
           \/ Checkpoint \/ Commit \/ Revert \/ CreateAccount \/ Finalize

Spec == Init /\ [][Next]_vars

\* Simulation mode: one line per behaviour that reached the history bound.
PrintReplay == (Sim /\ Len(hist) = MaxHist) => PrintT("REPLAY " \o ToJson([ops |-> hist, expect |-> exps]))

View == <<acct, slot, tstor, logs, snaps, dirty, ret>>

------------------------------------------------------------------------------
\* The properties, checked by TLC on the specification itself.

Sum(ac) == LET RECURSIVE S(_)
               S(A) == IF A = {} THEN 0 ELSE LET x == CHOOSE x \in A : TRUE IN ac[x].bal + S(A \ {x})
           IN S({a \in Addr : ac[a].loaded})
DbSum(ac) == LET RECURSIVE S(_)
                 S(A) == IF A = {} THEN 0
                         ELSE LET x == CHOOSE x \in A : TRUE IN (IF Db[x].ex THEN Db[x].bal ELSE 0) + S(A \ {x})
             IN S({a \in Addr : ac[a].loaded})

TypeOK == /\ \A a \in Addr : acct[a].bal \in 0..(Cap - 1) /\ acct[a].nonce \in 0..NBig
          /\ Depth <= MaxDepth

\* C06: a revert re-establishes the snapshot on everything the snapshot knew about.
RevertRestores ==
    [][(hist' # hist /\ hist'[Len(hist')].op = "checkpoint_revert") =>
        LET s == snaps[Depth] IN
        /\ Len(snaps') = Depth - 1
        /\ tstor' = s.tstor /\ logs' = SubSeq(logs, 1, s.nlogs)
        /\ \A a \in Addr :
             /\ s.acct[a].loaded =>
                  /\ acct'[a].bal = s.acct[a].bal /\ acct'[a].nonce = s.acct[a].nonce
                  /\ acct'[a].code = s.acct[a].code /\ acct'[a].created = s.acct[a].created
                  /\ acct'[a].destroyed = s.acct[a].destroyed /\ acct'[a].cold = s.acct[a].cold
                  /\ (acct'[a].touched = s.acct[a].touched \/ (SD /\ a = RIPEMD))
             /\ ~s.acct[a].loaded /\ acct'[a].loaded =>
                  /\ acct'[a].bal = (IF Db[a].ex THEN Db[a].bal ELSE 0) /\ ~acct'[a].created
                  /\ ~acct'[a].destroyed /\ (acct'[a].cold <=> ~acct'[a].sticky)
             /\ \A k \in Slot : s.slot[a][k].loaded => slot'[a][k] = s.slot[a][k]
    ]_vars

\* C06: committing keeps every change.
CommitKeeps ==
    [][(hist' # hist /\ hist'[Len(hist')].op = "checkpoint_commit") =>
        (acct' = acct /\ slot' = slot /\ tstor' = tstor /\ logs' = logs /\ Len(snaps') = Depth - 1)]_vars

\* C08 at journal level: the balances of all cached accounts sum to their database balances,
\* minus what self-destruct-to-self burnt; no operation creates ether.
NoEtherCreated == dirty = "" => Sum(acct) <= DbSum(acct)
\* ... and only a self-destruct (naming itself) destroys any; a revert can only give it back.
EtherOnlyBurntBySelfdestruct ==
    [][(hist' # hist /\ dirty = "" /\ dirty' = ""
        /\ hist'[Len(hist')].op \notin {"selfdestruct", "finalize", "checkpoint_revert"})
       => Sum(acct') - DbSum(acct') = Sum(acct) - DbSum(acct)]_vars

\* C34: transaction-level warm entries never turn cold.
StickyNeverCold == \A a \in Addr : (acct[a].sticky => ~acct[a].cold)
                   /\ \A k \in Slot : (slot[a][k].sticky => ~slot[a][k].cold)
=============================================================================
