------------------------------- MODULE Stack -------------------------------
(* The operand stack of one EVM frame (property C12).

   "For any sequence of push, pop, peek, dup, swap, exchange and multi-byte push operations, the
    stack behaves as a last-in-first-out list of at most 1024 256-bit words.  An operation that
    would underflow or overflow reports the error and leaves the stack unchanged, and pushing a
    byte slice pushes its big-endian words with the last word right-padded with zeros."

   Written from that text, the yellow paper's stack discipline (section 9.1: 256-bit words, at most
   1024 of them; an instruction that needs more words than present, or that would leave more than
   1024, is an exceptional halt) and EIP-663 (DUPN / SWAPN / EXCHANGE), not from stack.rs.

   State.  `stk` is the list of words, BOTTOM FIRST: stk[1] is the oldest word, stk[Len(stk)] is the
   top.  Depths are counted from the top, the top being depth 0.

   Words.  A word is a 32-byte string; the specification never computes with the bytes, it only has
   to say WHICH word is where, so a word is a NAME (a number) telling where it came from:
     Val(v)       the opaque 256-bit value number v (pushed by push/push_b256/set, or pre-filled);
     Chunk(j, n)  the big-endian number spelt by bytes 32j .. 32j+n-1 of THE slice (1 <= n <= 32), see
                  ChunkBytes.
   There is one infinite byte string, SliceByte(0), SliceByte(1), ...; push_slice(len) pushes its
   prefix of length len.  ChunkBytes gives the 32 bytes of a chunk word and the ASSUME below proves
   (TLC evaluates it) that the words pushed for every length in SliceLens are exactly the property's
   "big-endian words", the last one zero-extended.  The harness embeds Val(v) as the U256 whose
   four 64-bit limbs are all different (v, v+2^32, v+2*2^32, v+3*2^32) and Chunk(j,n) as the
   big-endian number of its 32 bytes, and translates the real words back into names.

   Every operation is first a pure operator Do<Op>(s, args) giving the record
   [res, out, stk]: the reported result ("ok", "underflow", "overflow"), the words handed back to the
   caller, and the stack afterwards.  The actions apply those operators to the state; the laws at the
   end relate the operators to one another and are checked by TLC on every reachable stack. *)
EXTENDS Integers, Sequences, TLC, Json

CONSTANTS
    Limit,       \* capacity in words (1024 for the EVM; 4 when only the laws are checked)
    Heights,     \* heights the set-up actions Prefill / Load jump to
    PushVals,    \* value numbers used by push / push_b256 / set / the *_top writes (all > Limit)
    Ns,          \* arguments n of dup(n) and swap(n)          (n >= 1)
    Is,          \* arguments i of peek(i) and set(i, _)       (i >= 0)
    ExN, ExM,    \* arguments of exchange(n, m)                (n >= 0, m >= 1)
    SliceLens,   \* byte lengths of push_slice
    Window,      \* how many top words a projection shows word by word
    MaxHist      \* bound on the history length (exhaustive mode)

VARIABLES stk,   \* the stack, bottom first
          res,   \* what the last operation reported
          out,   \* the words the last operation returned
          hist   \* the operations so far (hidden by View)
vars == <<stk, res, out, hist>>

Min(a, b) == IF a < b THEN a ELSE b

\* ------------------------------------------------------------------------------------ words
\* Names are numbers (plain integers keep 1024-word states cheap for TLC): values below ChunkBase,
\* chunk (j, n) at ChunkBase + 33 j + n.
ChunkBase   == 20000
Val(v)      == v
Chunk(j, n) == ChunkBase + 33 * j + n
ChunkIndex(w) == (w - ChunkBase) \div 33        \* which 32-byte window of the slice
ChunkLen(w)   == (w - ChunkBase) % 33           \* how many of its bytes

\* Byte i (from 0) of the slice.  Never zero, so zero padding is distinguishable from data; the step
\* between neighbouring bytes depends on the word index, so that all 32-byte windows starting at a
\* multiple of 32 below 32*1255 differ (a word copied from the wrong place is a different word).
SliceByte(i) == LET j == i \div 32
                    r == i % 32
                IN  1 + ((j + r * (7 + (j \div 251))) % 251)

\* The 32 bytes of a chunk word, most significant first: the word is the big-endian NUMBER its n
\* bytes spell, so a short chunk has its 32-n zero bytes in the HIGH-order places.  This is the
\* yellow paper's PUSH1..PUSH31 (push_slice is what PUSHn uses): "the bytes are right-aligned (take
\* the lowest significant place in big endian)", e.g. the slice <<1>> is the word 1.  The property's
\* "last word right-padded with zeros" is about the implementation's little-endian limb buffer, where
\* the zero limbs come after the written ones; read as a big-endian byte string the zeros are on the
\* left.  (A 32-byte chunk has no padding; only the last word of a slice can be short.)
ChunkBytes(w) ==
    LET from == 32 * ChunkIndex(w)
        n    == ChunkLen(w)
        pad  == 32 - n
    IN  [k \in 1..32 |-> IF k > pad THEN SliceByte(from + k - pad - 1) ELSE 0]

NWords(len) == (len + 31) \div 32
\* The words push_slice(len) pushes, in pushing order (the last one ends up on top).
SliceWords(len) == [j \in 1..NWords(len) |-> Chunk(j - 1, Min(32, len - 32 * (j - 1)))]

\* The property's sentence about slices, byte by byte: as few words as can hold the bytes; every word
\* but the last is 32 consecutive bytes of the slice; the last one holds the remaining n bytes, in
\* order, in its n low-order places, and zeros above them.
ASSUME SlicesAreBigEndianWords ==
    \A len \in SliceLens :
        LET ws == SliceWords(len) IN
        /\ len = 0 => ws = <<>>
        /\ len > 0 => 32 * (Len(ws) - 1) < len /\ len <= 32 * Len(ws)
        /\ \A j \in 1..Len(ws) :
               LET n   == IF j < Len(ws) THEN 32 ELSE len - 32 * (Len(ws) - 1)
                   pad == 32 - n                                   \* zero bytes before the data
               IN  \A k \in 1..32 :
                       ChunkBytes(ws[j])[k] = IF k > pad THEN SliceByte(32 * (j - 1) + (k - pad - 1)) ELSE 0

\* ------------------------------------------------------------------- the operations, as functions
Ok(s, o)  == [res |-> "ok", out |-> o, stk |-> s]
Err(e, s) == [res |-> e, out |-> <<>>, stk |-> s]           \* an error changes nothing

At(s, d)   == s[Len(s) - d]                                  \* the word at depth d (0 = top)
Drop(s, k) == SubSeq(s, 1, Len(s) - k)                       \* s without its k top words
Popped(s, k) == IF k = 0 THEN <<>> ELSE [d \in 1..k |-> At(s, d - 1)]     \* the k top words, top first

DoPush(s, w) == IF Len(s) >= Limit THEN Err("overflow", s) ELSE Ok(Append(s, w), <<>>)

DoPop(s) == IF Len(s) = 0 THEN Err("underflow", s) ELSE Ok(Drop(s, 1), <<At(s, 0)>>)

DoPeek(s, i) == IF i >= Len(s) THEN Err("underflow", s) ELSE Ok(s, <<At(s, i)>>)

DoSet(s, i, w) == IF i >= Len(s) THEN Err("underflow", s) ELSE Ok([s EXCEPT ![Len(s) - i] = w], <<>>)

\* DUPn: copy the word at depth n-1 onto the top.  Needs n words and room for one more.
DoDup(s, n) ==
    IF n > Len(s) THEN Err("underflow", s)
    ELSE IF Len(s) >= Limit THEN Err("overflow", s)
    ELSE Ok(Append(s, At(s, n - 1)), <<>>)

\* EXCHANGE: swap the words at depths n and n+m (m >= 1).  SWAPn is the case n = 0.
DoExchange(s, n, m) ==
    IF n + m >= Len(s) THEN Err("underflow", s)
    ELSE Ok([s EXCEPT ![Len(s) - n] = At(s, n + m), ![Len(s) - n - m] = At(s, n)], <<>>)
DoSwap(s, n) == DoExchange(s, 0, n)

\* Multi-byte push: all words or none.  An empty slice pushes nothing (and cannot overflow).
DoPushSlice(s, len) ==
    IF Len(s) + NWords(len) > Limit THEN Err("overflow", s) ELSE Ok(s \o SliceWords(len), <<>>)

\* The unchecked fast paths the instruction macros use after they have checked the height
\* themselves.  They have a PRECONDITION (enough words present) instead of an error result; the
\* actions below are enabled only when it holds.
\*   pop<k>_unsafe        : remove the k top words and return them, top first;
\*   pop<k>_top_unsafe    : the same, and also hand out the new top for reading and overwriting
\*                          (k = 0 is top_unsafe); w is what the caller writes there.
DoPopN(s, k)       == Ok(Drop(s, k), Popped(s, k))
DoPopNTop(s, k, w) == Ok([Drop(s, k) EXCEPT ![Len(s) - k] = w], Popped(s, k) \o <<At(s, k)>>)

\* ------------------------------------------------------------------------------- projection
\* What is compared with the implementation after every step: the height, the top `Window` words
\* one by one (top first), and a position-weighted checksum of all the words below the window
\* (any single wrong word and any transposition below the window changes it: 65521 is prime and all
\* names are different and smaller).
\* (DigSlow is a recursive function, not a recursive operator: TLC re-evaluates operator arguments
\* at every level of a recursive operator.  It still costs TLC milliseconds per thousand words, so Dig
\* takes a shortcut for the commonest case, words 1..m still being the pre-filled Val(1)..Val(m):
\* then the checksum is 1*1 + 2*2 + .. + m*m; DigShortcutIsExact has TLC confirm that.)
DigSlow(s, m) == LET f[p \in 0..m] == IF p = 0 THEN 0 ELSE (f[p - 1] + p * s[p]) % 65521 IN f[m]
SumSquares(m) == (((m * (m + 1)) \div 2) * (2 * m + 1)) \div 3
Base == [i \in 1..Limit |-> Val(i)]
Dig(s, m) == IF SubSeq(s, 1, m) = SubSeq(Base, 1, m) THEN SumSquares(m) % 65521 ELSE DigSlow(s, m)
ASSUME DigShortcutIsExact == \A m \in {0, 1, 2, Limit \div 2, Limit - 1, Limit} : DigSlow(Base, m) = SumSquares(m) % 65521

Summary(s) ==
    LET h == Len(s)  k == Min(Window, h) IN
    [h |-> h, empty |-> (h = 0), top |-> Popped(s, k), rest |-> Dig(s, h - k)]

\* Evaluated as the last conjunct of a step, when the primed variables are known.
Emit(op) ==
    LET q == Summary(stk') IN
    PrintT("EDGE " \o ToJson([hist |-> hist, pre |-> Summary(stk), op |-> op,
            post |-> [h |-> q.h, empty |-> q.empty, top |-> q.top, rest |-> q.rest,
                      res |-> res', out |-> out']]))

\* ---------------------------------------------------------------------------------- actions
Op(name, a, b) == [op |-> name, a |-> a, b |-> b]

Do(op, r) ==
    /\ stk' = r.stk /\ res' = r.res /\ out' = r.out
    /\ hist' = Append(hist, op)
    /\ Emit(op)

Init == stk = <<>> /\ res = "ok" /\ out = <<>> /\ hist = <<>>

\* Set-up, first step only.  Prefill(h) is h pushes of Val(1) .. Val(h) (PrefillIsPushes below);
\* it exists because the interesting heights are next to 1024.
Filled(h) == SubSeq(Base, 1, h)
Prefill == \E h \in Heights :
    /\ hist = <<>> /\ h <= Limit
    /\ Do(Op("prefill", h, 0), Ok(Filled(h), <<>>))

\* A stack can also be made from a serialised list of words (bottom first).  A list longer than the
\* limit is not a stack and is rejected.
Load == \E h \in Heights \cup {Limit + 1} :
    /\ hist = <<>>
    /\ Do(Op("load", h, 0), IF h > Limit THEN Err("rejected", stk) ELSE Ok(Filled(h), <<>>))

Push     == \E v \in PushVals : Do(Op("push", v, 0), DoPush(stk, Val(v)))
PushB256 == \E v \in PushVals : Do(Op("push_b256", v, 0), DoPush(stk, Val(v)))
Pop      == Do(Op("pop", 0, 0), DoPop(stk))
Peek     == \E i \in Is : Do(Op("peek", i, 0), DoPeek(stk, i))
Set      == \E i \in Is : \E v \in PushVals : Do(Op("set", i, v), DoSet(stk, i, Val(v)))

\* With a full stack and n > Limit both errors apply and the property does not say which one is
\* reported; that single case is left out (no instruction can produce it: n <= 256).
Dup      == \E n \in Ns : /\ ~(n > Len(stk) /\ Len(stk) >= Limit)
                          /\ Do(Op("dup", n, 0), DoDup(stk, n))
Swap     == \E n \in Ns : Do(Op("swap", n, 0), DoSwap(stk, n))
Exchange == \E n \in ExN : \E m \in ExM : Do(Op("exchange", n, m), DoExchange(stk, n, m))
PushSlice == \E len \in SliceLens : Do(Op("push_slice", len, 0), DoPushSlice(stk, len))

PopNUnsafe == \E k \in 1..5 :
    /\ Len(stk) >= k                                           \* the caller's obligation
    /\ Do(Op("popn_unsafe", k, 0), DoPopN(stk, k))
PopNTopUnsafe == \E k \in 0..2 : \E v \in PushVals :
    /\ Len(stk) >= k + 1                                       \* the caller's obligation
    /\ Do(Op("popn_top_unsafe", k, v), DoPopNTop(stk, k, Val(v)))

\* Rendering (Display) shows the words bottom first and changes nothing; the harness projects what
\* the rendering shows.
Show == Do(Op("show", 0, 0), Ok(stk, <<>>))

Steps == \/ Prefill \/ Load \/ Push \/ PushB256 \/ Pop \/ Peek \/ Set \/ Dup \/ Swap \/ Exchange
         \/ PushSlice \/ PopNUnsafe \/ PopNTopUnsafe \/ Show

\* The exploration bound.  Used as TLC's CONSTRAINT with NEXT Steps: TLC then generates (prints, and
\* checks the invariants and action properties on) the successors of the last level without storing
\* them.  `Next` is the same bound for tools without constraints.
HistBound == Len(hist) < MaxHist
Next == HistBound /\ Steps

Spec == Init /\ [][Next]_vars

View == stk

\* ------------------------------------------------ the property, checked by TLC on the specification
Results == {"ok", "underflow", "overflow", "rejected"}

\* "at most 1024 words"
Bounded == Len(stk) <= Limit /\ res \in Results

\* "reports the error and leaves the stack unchanged"
ErrorLeavesStackUnchanged == [][res' # "ok" => (stk' = stk /\ out' = <<>>)]_vars

\* Which error, stated once for all operations by two numbers: how many words the operation needs to
\* find, and by how many the height grows.  Underflow iff the words are not there; otherwise
\* overflow iff the result would not fit; otherwise success with exactly that height.
Needs(o) == CASE o.op \in {"push", "push_b256", "push_slice", "show", "prefill", "load"} -> 0
              [] o.op = "pop" -> 1
              [] o.op \in {"peek", "set"} -> o.a + 1
              [] o.op = "dup" -> o.a
              [] o.op = "swap" -> o.a + 1
              [] o.op = "exchange" -> o.a + o.b + 1
              [] o.op = "popn_unsafe" -> o.a
              [] o.op = "popn_top_unsafe" -> o.a + 1
Grows(o) == CASE o.op \in {"push", "push_b256", "dup"} -> 1
              [] o.op = "push_slice" -> NWords(o.a)
              [] o.op \in {"prefill", "load"} -> o.a
              [] o.op = "pop" -> -1
              [] o.op \in {"popn_unsafe", "popn_top_unsafe"} -> -o.a
              [] OTHER -> 0
HeightArithmetic ==
    [][hist' # hist =>
        LET o == hist'[Len(hist')] IN
        IF Needs(o) > Len(stk) THEN res' = "underflow"
        ELSE IF Len(stk) + Grows(o) > Limit THEN res' \in {"overflow", "rejected"}
        ELSE res' = "ok" /\ Len(stk') = Len(stk) + Grows(o)]_vars

\* "behaves as a last-in-first-out list": the laws tying the operations together, for the current
\* stack s and all arguments.  (Ok2 ignores what an intermediate step returned.)
Laws ==
    LET s == stk IN
    \* what is pushed is what pop returns, and the stack below is untouched; pushes stack up
    /\ \A v \in PushVals : Len(s) < Limit =>
           /\ DoPop(DoPush(s, Val(v)).stk) = Ok(s, <<Val(v)>>)
           /\ DoPeek(DoPush(s, Val(v)).stk, 0).out = <<Val(v)>>
           /\ \A i \in Is : i < Len(s) => DoPeek(DoPush(s, Val(v)).stk, i + 1).out = DoPeek(s, i).out
    \* peek(i) is what i+1 pops would return last
    /\ \A i \in Is : i < Len(s) => DoPeek(s, i).out = <<DoPopN(s, i + 1).out[i + 1]>>
    \* popN is N pops
    /\ \A k \in 1..5 : Len(s) >= k =>
           /\ DoPopN(s, k).stk = DoPop(DoPopN(s, k - 1).stk).stk
           /\ DoPopN(s, k).out = DoPopN(s, k - 1).out \o DoPop(DoPopN(s, k - 1).stk).out
    /\ \A k \in 0..2 : \A v \in PushVals : Len(s) >= k + 1 =>
           /\ DoPopNTop(s, k, Val(v)).stk = DoSet(DoPopN(s, k).stk, 0, Val(v)).stk
           /\ DoPopNTop(s, k, Val(v)).out = DoPopN(s, k).out \o DoPeek(DoPopN(s, k).stk, 0).out
    \* set(i) changes what peek(i) sees and nothing else
    /\ \A i \in Is : \A v \in PushVals : i < Len(s) =>
           LET t == DoSet(s, i, Val(v)).stk IN
           /\ DoPeek(t, i).out = <<Val(v)>>
           /\ t = Drop(s, i + 1) \o <<Val(v)>> \o SubSeq(s, Len(s) - i + 1, Len(s))
    \* dup(n) is push(peek(n-1))
    /\ \A n \in Ns : (n <= Len(s) /\ Len(s) < Limit) => DoDup(s, n) = DoPush(s, DoPeek(s, n - 1).out[1])
    \* exchange(n, m) is two sets of the two peeks; it is its own inverse; swap(n) = exchange(0, n)
    /\ \A n \in ExN : \A m \in ExM : n + m < Len(s) =>
           LET x == DoPeek(s, n).out[1]  y == DoPeek(s, n + m).out[1] IN
           /\ DoExchange(s, n, m).stk = DoSet(DoSet(s, n, y).stk, n + m, x).stk
           /\ DoExchange(DoExchange(s, n, m).stk, n, m).stk = s
    /\ \A n \in Ns : DoSwap(s, n) = DoExchange(s, 0, n)
    \* push_slice is the pushes of its words, all or nothing
    /\ \A len \in SliceLens :
           LET ws == SliceWords(len)  r == DoPushSlice(s, len) IN
           IF Len(s) + Len(ws) > Limit THEN r = Err("overflow", s)
           ELSE /\ r.res = "ok" /\ Drop(r.stk, Len(ws)) = s
                /\ \A j \in 1..Len(ws) : DoPeek(r.stk, Len(ws) - j).out = <<ws[j]>>
                /\ Len(ws) = 1 => r = DoPush(s, ws[1])

\* The laws only on the states TLC expands (the frontier of a bounded run is much larger).
LawsOnExpanded == Len(hist) < MaxHist => Laws

\* Prefill(h) is h pushes.
RECURSIVE Pushes(_, _)
Pushes(s, h) == IF h = 0 THEN s ELSE DoPush(Pushes(s, h - 1), Val(h)).stk
ASSUME PrefillIsPushes == \A h \in Heights : h <= Limit => Pushes(<<>>, h) = Filled(h)
=============================================================================
